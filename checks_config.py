# Per-property configuration of the ./check driver (read by ./check and tools/mkmanifest.py).
STATEFUL_ASSUMPTIONS = [
    "messages are delivered as wire-decoded protobuf messages to the real MsgServiceRouter (no signatures, ante handlers or tx fees)",
    "module-account permissions and blocked addresses are a copy of app/app.go (the app package does not build offline)",
    "the block lifecycle (per-message cache branch written only on success, handler panics recovered as failures, BeginBlock of x/ecocredit) is harness code modelled on baseapp.runTx",
    "credit-type precision is 6 everywhere (CreditType.Validate locks it)",
    "block times are strictly increasing and after 1970",
]
GEN = ("rapid state machine: a generated valid genesis (fees, allowlist, allowed denoms, fee rates, bridge chains, sequences near the padded width) then a history of "
       "state-aware steps drawn from a weighted profile over all message types, blocks (1 ns .. years, landing on expirations), restarts, faucet steps, "
       "speculative steps (1-5 generated messages executed on a branch that is discarded, as a simulation or rolled-back tx does; a third of them coherent set-up or configuration-change chains whose entities later messages name as phantom ids) and once-per-history macro steps "
       "(>100 batches in a basket, >100 / >240 orders of one seller, >100 attestations by one attestor, >10 holders of a batch); values include near-miss identifiers, "
       "re-spelled amounts, amounts beyond 34 digits; some configurations have a populated genesis (>100 classes/projects/issuers), a legacy genesis (batches with omitted zero amounts, baskets with zero entries or an exponent-9 basket, hand-spelled fee amounts) or a vesting account; ")
DIST = " Distinct = distinct (step kind, accepted?) sequences."

def stateful(test, rule, quick=4000, thorough=80000, qsteps=40, tsteps=70, extra=None, qtimeout=900):
    d = {
        "test": test, "rule": GEN + rule + DIST, "assumptions": list(STATEFUL_ASSUMPTIONS),
        "quick": {"checks": quick, "steps": qsteps, "shards": 8, "timeout": qtimeout, "shrink": "15s"},
        "thorough": {"checks": thorough, "steps": tsteps, "shards": 16, "timeout": 7200, "shrink": "60s"},
    }
    if extra:
        for k, v in extra.items():
            if isinstance(v, dict) and k in d:
                d[k].update(v)
            else:
                d[k] = v
    return d

def pure(test, rule, quick, thorough, assumptions, fuzz=None):
    d = {
        "test": test, "rule": rule, "assumptions": assumptions,
        "quick": {"checks": quick, "shards": 8, "timeout": 900, "shrink": "15s"},
        "thorough": {"checks": thorough, "shards": 16, "timeout": 7200, "shrink": "60s"},
    }
    if fuzz:
        d["thorough"]["fuzz"] = fuzz
    return d

CHECKS = {
    "C01": stateful("TestC01",
        "oracle after every accepted message and every block: per-batch tradable supply == sum(tradable+escrowed)+basket holdings, retired supply == sum retired, "
        "every stored amount non-negative and within precision (exact rationals + the chain's own fixed parser), registered batch-supply invariant not broken. "
        "Non-trivial = accepted messages from >=3 of the families {issue, move, basket, market} AND a state where one batch is simultaneously held by a basket and escrowed."),
    "C02": stateful("TestC02",
        "ghost ledger issued[batch] fed from accepted CreateBatch/MintBatchCredits/BridgeReceive contents; after every step T+R+C == issued, no batch appears without an issuing message, "
        "open never goes false->true, a sealed batch's total is frozen and no mint into a sealed batch is accepted. "
        "Non-trivial = history with an accepted mint or bridge receive, >=2 different accepted retire/cancel routes and an accepted seal."),
    "C03": stateful("TestC03",
        "around every accepted message: for every account that is not a signer, tradable and escrowed credits and every bank balance do not decrease, except escrow of a seller whose order is filled "
        "(exactly the bought quantity, and the seller is paid the reference amount in the ask denom) and the fee pool under the authority's GovSendFromFeePool; BeginBlock only moves expired quantities escrow->tradable and never touches the bank. "
        "Non-trivial = >=3 accounts hold credits and >=1 third-party-affecting step (fill, send, expiry) is accepted."),
    "C04": stateful("TestC04",
        "parent/child comparison across every accepted message, block and restart: retired balance per (account,batch), retired supply and cancelled supply never decrease and their rows never disappear. "
        "Non-trivial = a balance row with a non-zero retired amount is subsequently written by >=3 different step kinds."),
    "C05": stateful("TestC05",
        "after every step, per basket: bank supply(basket denom) == sum(basket balances) x 10^precision exactly; Put mints exactly amount x 10^p to the depositor and reports it; Take burns exactly the amount, "
        "debits the owner and releases amount/10^p credits; the registered basket-supply invariant is not broken. "
        "Non-trivial = >=2 of {two baskets share a batch, a take spanning two batches, a basket-token transfer}."),
    "C06": stateful("TestC06",
        "after every step: escrowed(seller,batch) == sum of that seller's open order quantities; every order has positive in-precision quantity, positive integer ask, existing batch and market; "
        "accepted Sell / UpdateSellOrders name a denom that is in AllowedDenom in the pre-state. Non-trivial = an update after a partial fill or an expiry after an update."),
    "C07": stateful("TestC07",
        "every accepted BuyDirect is compared with an exact-rational sequential reference computed from the pre-state orders, fee params and request: credits to the buyer (retired iff auto-retire), seller escrow and order quantity, "
        "denom/price/auto-retire guards, seller credit and fee (or uregen burn) each within one base unit per fill, buyer debit == seller credits + fees and <= exact total, max fee >= floor(buyer fee), and a frame over all tables and balances. "
        "Non-trivial = accepted buy with a non-integral quantity x ask or a non-zero fee."),
    "C08": stateful("TestC08",
        "for every accepted role-guarded message the role predicate (issuer, batch issuer+open, class/project admin, curator, seller, resolver manager/public, allow-listed creator, governance authority) is evaluated on the PRE-state snapshot; "
        "the row-level diff is confined to the entity the message names (field-level for update messages); the four unimplemented RPCs are never accepted; a sealed batch's row never changes. "
        "Non-trivial = a guarded message accepted after the role moved AND a former holder rejected."),
    "C09": stateful("TestC09",
        "custom step 'roundtrip' (and always at the end): ExportGenesis of ecocredit+data (+auth,bank) -> each module's ValidateGenesis -> InitGenesis into an empty chain -> re-export byte-identical after JSON canonicalisation -> registered invariants hold on the imported chain. "
        "Non-trivial = a round trip over a state with rows in >=10 tables.", quick=2400),
    "C10": stateful("TestC10",
        "differential: each generated trace is executed up to 9 times in-process (as generated, again, with restarts at all / none / the complementary set of block boundaries, with the failed messages removed, with the speculative discarded-branch executions removed, with another local time zone, and while three other goroutines keep simulating the trace's messages on discarded branches through the same keepers) and, in the thorough tier, once more in a second OS process (other TZ, GOMAXPROCS=2); a small share of the cases is run again in a binary built with the Go race detector (a race whose racing access is in regen-ledger code is a violation); "
        "per-block app hash, per-message success flag, ABCI code, response bytes, event bytes and gas must be identical (block hashes only for the failed-messages-removed run). "
        "Non-trivial = a restart strictly inside the history followed by >=5 accepted messages, with data-module messages accepted.", quick=800, thorough=20000,
        extra={"quick": {"race": {"checks": 24, "shards": 4, "test": "TestC10"}}, "thorough": {"race": {"checks": 640, "shards": 16, "test": "TestC10", "timeout": 3000}}}),
    "C11": stateful("TestC11",
        "Put: accepted <=> reference admission rule (basket exists, class listed, type matches, start date >= criterion computed with exact calendar arithmetic at block time, amount positive within precision, cumulative owner balance) - both directions; "
        "Take: auto-retire honoured, delivered retired iff retire applies, response sums to amount/10^p, every entry but the last drains its batch, start dates non-decreasing, no untouched older batch, post-state balances match. "
        "Non-trivial = a put exactly at the date boundary or a multi-batch take whose deposit order differs from date order."),
    "C12": stateful("TestC12",
        "at every BeginBlock(T): no panic; no order with expiration <= T survives; every removed order was expired and its quantity moved escrow->tradable per (seller,batch); all other orders and balance rows identical; no other table changes; no accepted BuyDirect of an expired order. "
        "Non-trivial = a block removing >=2 orders of one seller/batch or an order whose expiration equals T."),
    "C13": stateful("TestC13",
        "ghost set of (class, origin id, source) fed by accepted CreateBatch/Mint/BridgeReceive: a second acceptance is a violation and the index never loses an entry; BridgeReceive only from allowed (lower-cased) sources; (class,contract)->batch is a ghost function built from accepted CreateBatch/BridgeReceive messages that must equal the stored table in both directions, and later receipts mint into that batch; "
        "Bridge only to allowed targets and bound batches, cancels exactly the amounts and every EventBridge carries the batch's contract, amount, owner, recipient, target. "
        "Non-trivial = a replay attempted through a different entry point than the original AND an accepted Bridge."),
    "C14": stateful("TestC14|TestC14Pure",
        "stateful: ghost sequence counters per credit type / class / project start at the genesis sequences and advance only on success; every creation returns the independently formatted next id; stored sequences equal the ghosts; ids unique, match independently written regexes and the repo validators, parsers recover embedded ids, every reference resolves. "
        "pure: for arbitrary strings the validators accept exactly the regex language; formatters x parsers round-trip for all abbreviations, sequence numbers up to 2^64-1 and dates in years 1..9999. "
        "Non-trivial = a failed creation between two successes, or a creation crossing the zero-padded width.",
        extra={"thorough": {"fuzz": [{"target": "FuzzC14Validators", "time": "300s"}]}}),
    "C15": pure("TestC15",
        "generated raw/graph content hashes (hash length 20..64, field values from {1,2,255,256,257,2^16,2^32-1,random}), near pairs differing in one field/byte/extension/type, and strings for the parser "
        "(mutated valid IRIs, arbitrary payloads re-encoded with a correct base58check checksum, non-canonical base58, extension variants). Oracles: ParseIRI(ToIRI(h)) == h (also via the ConvertHashToIRI/ConvertIRIToHash queries), "
        "h1 != h2 => ToIRI(h1) != ToIRI(h2), and any string parsing to a VALID content hash is its canonical IRI. Non-trivial = a valid hash with a field > 255, a valid near pair, or a string that parses to an anchorable hash; distinct = distinct cases.",
        80000, 30000000, ["'accepts' in clause (c) is read as: parses to a content hash that passes Validate (what a message can anchor)"],
        fuzz=[{"target": "FuzzC15ParseIRI", "time": "300s"}]),
    "C16": stateful("TestC16",
        "configurations: production hasher, MinLength 1/2/8, and weak hashes with k in {1,2,3,16} distinct outputs (incl. repeated-byte outputs) injected through the verif build-tag hook; histories of Anchor/Attest/DefineResolver/RegisterResolver over a pool of 14 content hashes. "
        "After every step: DataID is a growing bijection id<->iri that never changes, anchor timestamp == block time of first anchoring forever, attestations written once, resolver rows and registrations never lost or changed, responses return stored iri/timestamp, only managers register to private resolvers. "
        "Non-trivial = >=3 IRIs share a probe prefix AND an IRI is re-anchored in a later block.", quick=4800, thorough=100000),
    "C17": stateful("TestC17",
        "custom steps 'query' and 'get': 27 list queries (filter argument present / absent / prefix-of-present; page sizes 1,2,3,5,n-1,n,n+1,1000; forward and reverse) walked by key and by offset through the real GRPCQueryRouter and compared as multisets and as sequences with a brute-force filter over the snapshot, "
        "totals checked on count_total requests, requests without a page or with an unset limit checked against the default page of 100; 11 single-entity queries compared with the stored rows. Genesis may contain prefix-colliding ids (C10/C100, C10-100/C10-1000). "
        "Non-trivial = a multi-page walk of a filtered query whose argument is a string prefix of (or prefixed by) another present argument.", qsteps=50),
    "C18": stateful("TestC18",
        "configurations = genesis values accepted by ValidateGenesis and governance messages accepted by their validators over boundary sets (fee unset/0/1/typical/>funds; rates '', 0, 0.0, tiny, 1, >1, 34+ digits; allowlist; allowed denoms). At genesis and after every accepted configuration change, canary operations whose own preconditions the harness establishes "
        "(CreateClass and basket Create by an eligible funded creator offering the fee, Put, Take, Sell in an allowed denom, BuyDirect with funds and ample max fee) run on a discarded branch and must all succeed; creations debit exactly the fee and burn it; below-fee offers are rejected; every accepted creation in the history is checked the same way. "
        "Non-trivial = a configuration with a boundary value followed by >=3 canary runs.", quick=2400, qsteps=30),
    "C19": pure("TestC19",
        "pairs of decimal strings from a grammar (signs, 0..40 digit coefficients with a point anywhere, e/E exponents -30..40, zeros incl. -0 / 0e5 / 0.000; pairs biased to equal values, one ulp apart, products/quotients straddling 34 digits) checked against math/big.Rat: parse, Add/Sub exact, guarded subtraction, MulExact/QuoExact exact-or-error, "
        "Mul/Quo within one unit of the 34th digit, SdkIntTrim == truncation (within 256 bits), BigInt, plain String() that re-parses, predicates, NumDecimalPlaces, and bit-identical operands (reflection over coefficient words) after every operation and after operating on results. "
        "Non-trivial = exact product or quotient not representable in 34 digits, or a zero/negative operand; distinct = distinct pairs.",
        200000, 40000000, ["SdkIntTrim is only checked for values that fit cosmossdk.io/math.Int (256 bits)"],
        fuzz=[{"target": "FuzzC19", "time": "300s"}]),
    "C20": pure("TestC20",
        "owners (20/32-byte, lower and upper case bech32), connection ids, inner messages of six registered types with arbitrary field contents, block times, and the four channel/capability combinations (with decoy channels and capabilities for other owners/connections); the outer message is marshalled, unmarshalled and UnpackInterfaces'd before the call; "
        "hand-written recording fakes check the exact lookups, exactly one SendTx iff both exist with that capability/connection/port, EXECUTE_TX, empty memo, timeout == block time + 60 s, and packet data that decodes to exactly one message byte-identical to the supplied one; sequences of 1-4 submissions on one keeper; injected SendTx failures (10 error kinds) must surface as a failed SubmitTx. "
        "Non-trivial = both lookups succeed and the inner message has non-default fields; distinct = distinct cases.",
        40000, 10000000, ["the ICA controller and capability keepers are hand-written fakes"]),
}
