# Per-property configuration of the ./check driver.
STATEFUL_ASSUMPTIONS = [
    "messages are delivered as Go structs to the real MsgServiceRouter (no signatures, ante handlers or tx fees)",
    "module-account permissions and blocked addresses are a copy of app/app.go",
    "the block lifecycle (per-message cache branch written only on success, handler panics recovered as failures) is harness code modelled on baseapp.runTx",
    "credit-type precision is 6 everywhere (CreditType.Validate locks it)",
]

def stateful(test, rule, quick=600, thorough=20000, qsteps=40, tsteps=70, extra=None):
    d = {
        "test": test, "rule": rule, "assumptions": list(STATEFUL_ASSUMPTIONS),
        "quick": {"checks": quick, "steps": qsteps, "shards": 4, "timeout": 600, "shrink": "15s"},
        "thorough": {"checks": thorough, "steps": tsteps, "shards": 16, "timeout": 3000, "shrink": "60s"},
    }
    if extra:
        d.update(extra)
    return d

CHECKS = {
    "C01": stateful("TestC01",
        "rapid state machine over all ecocredit/basket/marketplace messages + bank sends + blocks/restarts from a generated valid genesis; "
        "after every accepted message and every block: per-batch supply == sum(tradable+escrowed)+basket holdings, retired supply == sum retired, "
        "every stored amount non-negative and within precision, registered batch-supply invariant not broken. "
        "Non-trivial = history with accepted messages from >=3 of the families {issue, move, basket, market} AND a state where one batch is simultaneously "
        "held by a basket and escrowed; distinct = distinct (kind,accepted) step sequences"),
}
