#!/bin/bash
# Dev tool: confirm a seeded mutant in a scratch worktree.
# usage: confirm_mutant.sh <patch.diff> <demo_test.go> <dest pkg dir rel. to repo> <module dir rel.> <test regex>
set -u
patch=$(readlink -f "$1"); demo=$(readlink -f "$2"); dest="$3"; mod="$4"; re="$5"
export GOFLAGS=-mod=mod GOPROXY=off GOSUMDB=off GOTOOLCHAIN=local
wt=/tmp/confirm-wt-$$
git -C /repo worktree add --detach $wt HEAD -q || exit 2
trap 'git -C /repo worktree remove --force '$wt' 2>/dev/null' EXIT
cd $wt
cp "$demo" "$dest/" || exit 2
if [ "$dest" = "$mod" ]; then pkg="./"; else pkg="./${dest#$mod/}/"; fi
( cd $mod && go test -vet=off -count=1 -run "$re" $pkg > /tmp/confirm.base.log 2>&1 ); base=$?
git apply "$patch" || { echo "PATCH DOES NOT APPLY"; exit 2; }
( cd $mod && go test -vet=off -count=1 -run "$re" $pkg > /tmp/confirm.mut.log 2>&1 ); mut=$?
rm -f "$dest/$(basename $demo)"
( cd $mod && go test -vet=off -count=1 ./... > /tmp/confirm.suite.log 2>&1 ); suite=$?
echo "demo without patch rc=$base (want 0); demo with patch rc=$mut (want !=0); suite with patch rc=$suite (want 0)"
if [ $base -ne 0 ]; then tail -5 /tmp/confirm.base.log; fi
if [ $mut -eq 0 ]; then tail -5 /tmp/confirm.mut.log; fi
if [ $suite -ne 0 ]; then grep -v '^ok\|no test files' /tmp/confirm.suite.log | tail -10; fi
[ $base -eq 0 ] && [ $mut -ne 0 ] && [ $suite -eq 0 ] && echo CONFIRMED
