#!/usr/bin/env python3
"""Regenerates /verif/MANIFEST.json from checks_config.py and manifest_text.py."""
import json, os, sys
ROOT = os.path.dirname(os.path.dirname(os.path.abspath(__file__)))
sys.path.insert(0, ROOT)
from checks_config import CHECKS
from manifest_text import TEXT, NOT_APPLICABLE

BASELINE_OFF = json.load(open("/root/.vp/BASELINE.json"))["cmd"]  # the pinned suite's own command; no -tags verif => guard off

props = [json.loads(l)["id"] for l in open(os.path.join(ROOT, "properties.jsonl"))]
checks = []
for pid in props:
    if pid not in CHECKS or pid not in TEXT:
        continue
    t = TEXT[pid]
    checks.append({
        "property_id": pid,
        "quick_cmd": "./check %s quick" % pid,
        "thorough_cmd": "./check %s thorough" % pid,
        "evidence_file": "/verif/evidence/%s.json" % pid,
        "replay_cmd_template": "./check %s --replay {path}" % pid,
        "engine": "harness",
        "level_claimed": {"category": "exploration", "text": t["level"], "design_ref": "DESIGN.md §4 " + pid},
        "level_note": t["note"],
        "technique": t["technique"],
    })
na = [{"property_id": p, "reason": NOT_APPLICABLE.get(p, "check not built yet in this session; no claim is made")} for p in props if p not in [c["property_id"] for c in checks]]
man = {
    "version": 1,
    "setup_cmd": "./setup.sh",
    "hooks": {
        "guard": "verif",
        "enable": "go build tag: -tags verif (the harness is always built with it)",
        "baseline_off_cmd": BASELINE_OFF,
        "source_commits": json.load(open(os.path.join(ROOT, "hook_commits.json"))),
        "add_only": True,
    },
    "engines": [{"name": "harness", "path": "/verif/harness", "serves_properties": [c["property_id"] for c in checks],
                 "kind_free_text": "Go module: minimal deterministic chain around the real regen-ledger modules + pgregory.net/rapid v1.3.0 stateful and pure properties + native go fuzz targets; python3 driver ./check"}],
    "checks": checks,
    "notes": "Every check is property-based testing / fuzzing: generated inputs or histories against an explicit oracle. See DESIGN.md.",
    "not_applicable": na,
}
json.dump(man, open(os.path.join(ROOT, "MANIFEST.json"), "w"), indent=1)
print("checks:", len(checks), "not_applicable:", len(na))
