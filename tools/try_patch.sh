#!/bin/bash
# Dev tool: apply a patch to /repo, run the quick checks of the given properties, undo the patch.
# usage: tools/try_patch.sh <patch.diff> <ID> [ID...]     (VERIF_TIER_MODE=thorough to use the thorough tier)
set -u
patch=$(readlink -f "$1"); shift
cd /repo || exit 2
if [ -n "$(git status --porcelain)" ]; then echo "repo not clean"; exit 2; fi
git apply "$patch" || { echo "patch does not apply"; exit 2; }
trap 'git -C /repo checkout -- . ; git -C /repo clean -fdq -- x types api 2>/dev/null' EXIT
cd /verif
mode=${VERIF_TIER_MODE:-quick}
for id in "$@"; do
  s=$(date +%s)
  out=$(./check "$id" "$mode" 2>/tmp/try_patch.$id.err)
  rc=$?
  e=$(( $(date +%s) - s ))
  echo "== $id rc=$rc (${e}s) $(echo "$out" | grep -m1 VIOLATION)"
  if [ $rc -eq 2 ]; then tail -5 /tmp/try_patch.$id.err; fi
  if [ $rc -eq 1 ]; then grep -m2 'violation key=' -A1 /tmp/try_patch.$id.err | cut -c1-400; fi
done
