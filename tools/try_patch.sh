#!/bin/bash
# Dev tool: apply a patch to a SCRATCH worktree of /repo (never to /repo itself), run the checks of the
# given properties against it, remove the worktree.
# usage: tools/try_patch.sh <patch.diff> <ID> [ID...]     (VERIF_TIER_MODE=thorough to use the thorough tier)
set -u
patch=$(readlink -f "$1"); shift
wt=/tmp/mutwt-$$
git -C /repo worktree add --detach $wt HEAD -q || exit 2
trap 'git -C /repo worktree remove --force '$wt' 2>/dev/null; rm -rf /verif/.build/harness-_tmp_mutwt_'$$' /tmp/mut-evidence-'$$'' EXIT
git -C $wt apply "$patch" || { echo "patch does not apply"; exit 2; }
cd /verif
mode=${VERIF_TIER_MODE:-quick}
for id in "$@"; do
  s=$(date +%s)
  out=$(VERIF_REPO=$wt VERIF_EVIDENCE_DIR=/tmp/mut-evidence-$$ ./check "$id" "$mode" 2>/tmp/try_patch.$id.err)
  rc=$?
  e=$(( $(date +%s) - s ))
  echo "== $id rc=$rc (${e}s) $(echo "$out" | grep -m1 VIOLATION)"
  if [ $rc -eq 2 ]; then tail -5 /tmp/try_patch.$id.err; fi
  if [ $rc -eq 1 ]; then grep -m2 'violation key=' -A1 /tmp/try_patch.$id.err | cut -c1-400; fi
done
