#!/bin/bash
# Dev tool: confirm and evaluate the round-2 mutants of one property. usage: OFFSET=4 process_round.sh <ID>
id=$1
cd /verif
for n in 1 2; do
  src=/tmp/wt/$id/mutants/$n
  [ -d $src ] || { echo "$id-$n: no such dir"; continue; }
  k=$((n+${OFFSET:-2}))
  eval $(python3 - "$src/meta.json" <<'PY'
import json,sys,shlex
m=json.load(open(sys.argv[1]))
for k in ("demo_file","demo_dest_dir","module_dir","demo_test_regex"):
    print("%s=%s" % (k, shlex.quote(str(m.get(k,"")))))
PY
)
  echo "### $id-$k ($demo_file -> $demo_dest_dir, -run $demo_test_regex)"
  tools/confirm_mutant.sh $src/patch.diff $src/$demo_file $demo_dest_dir $module_dir "$demo_test_regex" 2>&1 | tail -2
  mkdir -p seeded/$id-$k; cp $src/* seeded/$id-$k/
  tools/try_patch.sh seeded/$id-$k/patch.diff $id 2>&1 | grep -A2 '^==' | cut -c1-260
done
