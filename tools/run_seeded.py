#!/usr/bin/env python3
"""Dev tool: run the checks against every seeded mutant (each patch is applied to a scratch worktree, never to /repo).
usage: tools/run_seeded.py [--tier quick|thorough] [dir-name-prefix ...]
Writes seeded/<dir>/verif_result.json and seeded/RESULTS.md."""
import json, os, subprocess, sys, time, glob, re
ROOT = os.path.dirname(os.path.dirname(os.path.abspath(__file__)))
tier = "quick"
args = sys.argv[1:]
if args and args[0] == "--tier":
    tier = args[1]; args = args[2:]
dirs = sorted(d for d in glob.glob(os.path.join(ROOT, "seeded", "*-*")) if os.path.isdir(d))
if args:
    dirs = [d for d in dirs if any(os.path.basename(d).startswith(a) for a in args)]
def sh(cmd, **kw):
    return subprocess.run(cmd, shell=True, text=True, stdout=subprocess.PIPE, stderr=subprocess.STDOUT, **kw)
WT = "/tmp/seededwt-%d" % os.getpid()
EV = "/tmp/seeded-evidence-%d" % os.getpid()
for d in dirs:
    name = os.path.basename(d)
    prop = name.split("-")[0]
    extra = []
    mp = os.path.join(d, "meta.json")
    meta = json.load(open(mp)) if os.path.exists(mp) else {}
    checks = [prop] + [c for c in meta.get("also_run", []) if c != prop]
    sh("git -C /repo worktree remove --force %s" % WT)
    sh("git -C /repo worktree add --detach %s HEAD -q" % WT)
    r = sh("git -C %s apply %s" % (WT, os.path.join(d, "patch.diff")))
    if r.returncode != 0:
        print(name, "PATCH DOES NOT APPLY", r.stdout); continue
    res = {"tier": tier, "checks": {}}
    try:
        for c in checks:
            t0 = time.time()
            p = subprocess.run(["./check", c, tier], cwd=ROOT, text=True, stdout=subprocess.PIPE, stderr=subprocess.PIPE,
                               env=dict(os.environ, VERIF_REPO=WT, VERIF_EVIDENCE_DIR=EV))
            m = re.search(r"violation key=(\S+)", p.stderr)
            res["checks"][c] = {"exit": p.returncode, "key": m.group(1) if m else None, "wall_s": round(time.time() - t0)}
            print(name, c, "exit", p.returncode, m.group(1) if m else "", flush=True)
    finally:
        sh("git -C /repo worktree remove --force %s" % WT)
        sh("rm -rf %s" % os.path.join(ROOT, ".build", "harness-" + re.sub(r"[^A-Za-z0-9]", "_", WT)))
    res["detected"] = any(v["exit"] == 1 for v in res["checks"].values())
    json.dump(res, open(os.path.join(d, "verif_result.json"), "w"), indent=1)
# summary
rows = []
for d in sorted(glob.glob(os.path.join(ROOT, "seeded", "*-*"))):
    rp = os.path.join(d, "verif_result.json")
    if not os.path.exists(rp): continue
    r = json.load(open(rp)); mp = os.path.join(d, "meta.json")
    meta = json.load(open(mp)) if os.path.exists(mp) else {}
    det = ", ".join("%s:%s (%ss)" % (c, v["key"] or ("exit %d" % v["exit"]), v["wall_s"]) for c, v in r["checks"].items() if v["exit"] == 1) or ("exit 2 (inconclusive: harness precondition no longer holds)" if any(v["exit"] == 2 for v in r["checks"].values()) else "MISSED")
    rows.append("| %s | %s | %s | %s |" % (os.path.basename(d), (meta.get("summary") or "")[:140].replace("|", "/"), r["tier"], det))
open(os.path.join(ROOT, "seeded", "RESULTS.md"), "w").write("# Seeded mutants vs. checks\n\n| mutant | summary | tier | detected by (violation key) |\n|---|---|---|---|\n" + "\n".join(rows) + "\n")
