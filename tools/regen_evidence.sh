#!/bin/bash
# Regenerate evidence/<id>.json with the quick tier at seed 1 on /repo's current tree and validate the interface files.
cd /verif || exit 2
rc=0
for p in C01 C02 C03 C04 C05 C06 C07 C08 C09 C10 C11 C12 C13 C14 C15 C16 C17 C18 C19 C20; do
  VERIF_SEED=1 ./check $p quick 2>/tmp/regen.$p.err | tail -1 || rc=1
done
python3-vt - <<'PY'
import json, jsonschema, glob
m = json.load(open('/verif/MANIFEST.json')); jsonschema.validate(m, json.load(open('/root/.vp/MANIFEST.schema.json')))
es = json.load(open('/root/.vp/EVIDENCE.schema.json'))
for f in sorted(glob.glob('/verif/evidence/*.json')):
    e = json.load(open(f)); jsonschema.validate(e, es)
    c = e.get('coverage', {})
    print(f.split('/')[-1], c.get('evaluations'), c.get('distinct_nontrivial'))
print('manifest + %d evidence files valid' % len(glob.glob('/verif/evidence/*.json')))
PY
exit $rc
