# Per-property texts for MANIFEST.json.
NOTE_STATEFUL = ("Trusted: the harness chain (block lifecycle, cache-branch discipline, module wiring copied from app/app.go and the repo's own "
                 "integration-test fixture), the snapshot reader (cosmos ORM read path), math/big. Real: all regen-ledger keepers, SDK auth/bank, "
                 "IAVL store. Not covered: signatures/ante, the real app package (does not build offline). A pass means 'held on everything explored'.")
TEXT = {
    "C01": {
        "level": "Generated-history search (rapid state machine, thousands of histories of 40-70 steps over every ecocredit message type with "
                 "state-aware arguments) with the conservation relation recomputed in exact rationals from independent table scans after every step; "
                 "the right level because the property quantifies over all histories and only falsification by search is available to this technique.",
        "note": NOTE_STATEFUL,
        "technique": "stateful property-based testing (rapid) with an exact-rational invariant over full-state snapshots",
    },
}
NOT_APPLICABLE = {}
