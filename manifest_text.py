# Per-property texts for MANIFEST.json (consumed by tools/mkmanifest.py).
NOTE_STATEFUL = ("Trusted: the harness chain (block lifecycle, cache-branch discipline, module wiring copied from app/app.go and the repo's own "
                 "integration-test fixture), the snapshot reader (cosmos ORM read path), math/big. Real and unmodified: all regen-ledger keepers and validators, "
                 "SDK auth/bank, MsgServiceRouter/GRPCQueryRouter, IAVL store. Not covered: signatures/ante handlers, the real app package (does not build offline). "
                 "A pass means 'held on everything explored'; open genuine defects are listed in known_findings.json and printed as KNOWN-FINDING.")
NOTE_PURE = ("Trusted: math/big, the generators and the reference written for the check. Real: the functions under test, called directly. "
             "A pass means 'held on everything explored'.")
LVL = ("Generated-input search (pgregory.net/rapid) against an explicit oracle; the property quantifies over all histories/inputs, so falsification by search "
       "with measured coverage is the level this technique offers. ")
def S(level, technique): return {"level": LVL + level, "note": NOTE_STATEFUL, "technique": technique}
def P(level, technique): return {"level": LVL + level, "note": NOTE_PURE, "technique": technique}
TEXT = {
 "C01": S("Thousands of histories of 40-70 state-aware steps over every ecocredit message type; the conservation relation is recomputed in exact rationals from independent full-table scans after every step and compared with the chain's own registered invariant.",
          "stateful property-based testing (rapid) with an exact-rational invariant over full-state snapshots"),
 "C02": S("A ghost ledger of issued amounts is fed only from accepted issuing messages and compared with T+R+C of every batch after every step, together with one-way sealing.",
          "stateful property-based testing (rapid) with a ghost-ledger oracle"),
 "C03": S("A frame condition over before/after snapshots of every balance row and every bank balance for all non-signers, with the paid-fill and fee-pool exceptions computed from an exact reference.",
          "stateful property-based testing (rapid) with a before/after frame oracle"),
 "C04": S("Monotonicity of the three quantities is checked across every accepted message, block and restart by parent/child snapshot comparison.",
          "stateful property-based testing (rapid) with a monotonicity oracle over the history"),
 "C05": S("The exact integer relation between the REAL bank keeper's supply and the basket holdings is checked after every step, plus exact Put/Take deltas and the registered invariant.",
          "stateful property-based testing (rapid) with an exact relation against the real bank keeper"),
 "C06": S("Escrow versus open orders is recomputed from table scans after every step; order well-formedness and the allowed-denom gate are checked against the pre-state.",
          "stateful property-based testing (rapid) with a state invariant"),
 "C07": S("Every accepted BuyDirect is compared with an independent sequential reference in math/big.Rat, including a full frame over tables, balances and supply.",
          "stateful property-based testing (rapid) with an exact-rational reference model"),
 "C08": S("Role predicates are evaluated on the pre-state snapshot for every accepted guarded message of the four services, and row/field-level diffs are confined to the named entity.",
          "stateful property-based testing (rapid) with a pre-state role oracle and row-level frame"),
 "C09": S("Round trip export -> validate -> import -> re-export -> invariants over sampled reachable states, using the modules' own genesis entry points.",
          "stateful property-based testing (rapid) with a round-trip oracle"),
 "C10": S("Differential and metamorphic testing of recorded traces: up to 9 in-process executions (different restart sets, another local time zone, three goroutines simulating concurrently, failed messages removed, speculative discarded-branch executions removed; +1 in a second OS process with another TZ in the thorough tier) must agree on hashes, results, events and gas; a share of the cases is repeated in a race-detector build.",
          "differential / metamorphic testing of generated traces (rapid)"),
 "C11": S("Put is checked in both directions against a reference admission rule with exact calendar arithmetic; Take is checked with a validity predicate (ties may go either way) and exact post-state.",
          "stateful property-based testing (rapid) with a reference rule and a validity predicate"),
 "C12": S("Every BeginBlock is checked under recover() against the pre/post order and balance tables with block times generated to land on, just before and just after expirations.",
          "stateful property-based testing (rapid) with a block-step oracle"),
 "C13": S("A ghost set of issued origin transactions and a ghost contract->batch map are maintained from accepted messages; EventBridge attributes are parsed and compared.",
          "stateful property-based testing (rapid) with ghost-state oracles and event inspection"),
 "C14": S("Ghost sequence counters, independently written formats and reference resolution after every step, plus pure round trips of formatters/validators/parsers and a native fuzz target on the validators.",
          "stateful + pure property-based testing (rapid) and native go fuzzing against independently written formats"),
 "C15": P("Round trip, injectivity on near pairs and canonical-form checks over generated hashes and structured/mutated IRI strings, plus native fuzzing of ParseIRI with the canonical-form oracle inside the target.",
          "property-based testing (rapid) with round-trip / injectivity oracles and native go fuzzing"),
 "C16": S("Configurations with weak and short ID hashers (injected through the verif hook) force collision chains; permanence and bijection are checked over all five data tables after every step.",
          "stateful property-based testing (rapid) over hasher configurations with injected collisions"),
 "C17": S("27 list queries and 11 single-entity queries go through the real GRPCQueryRouter and are compared with brute-force filtering of the snapshot for generated filters, page sizes and both paging modes.",
          "differential testing of queries against brute-force filtering (rapid)"),
 "C18": S("After every accepted configuration change, canary user operations run on a discarded branch and must succeed; fee charging is checked exactly against the real bank keeper.",
          "stateful property-based testing (rapid) over configurations with canary operations"),
 "C19": P("Hundreds of thousands of generated decimal pairs compared with an independent big-rational reference, including bit-level operand immutability via reflection; native fuzzing in the thorough tier.",
          "property-based testing (rapid) against a math/big.Rat reference and native go fuzzing"),
 "C20": P("The handler is run with hand-written recording fakes over generated owners, inner messages, block times and availability combinations after a real wire round trip of the outer message; sequences of submissions share one keeper; SendTx failures are injected (fault injection) and must surface as failed submissions.",
          "property-based testing (rapid) with recording fakes"),
}
NOT_APPLICABLE = {}
