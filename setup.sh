#!/bin/sh
# Offline setup: regenerate go.sum from the repo's own go.sum files and warm the build cache.
set -e
cd "$(dirname "$0")"
export GOFLAGS=-mod=mod GOPROXY=off GOSUMDB=off GOTOOLCHAIN=local
python3 - <<'PY'
import os
lines=set()
for m in ["", "api", "types", "x/data", "x/ecocredit", "x/intertx"]:
    p=os.path.join("/repo", m, "go.sum")
    if os.path.exists(p): lines.update(open(p).read().splitlines())
for p in ["harness/go.sum", "harness/go.sum.extra"]:
    if os.path.exists(p): lines.update(open(p).read().splitlines())
lines.discard("")
open("harness/go.sum","w").write("\n".join(sorted(lines))+"\n")
PY
mkdir -p .build out evidence
(cd harness && go test -c -tags verif -o ../.build/setup.test . && rm -f ../.build/setup.test)
echo setup ok
