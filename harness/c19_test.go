package harness

import (
	"encoding/json"
	"fmt"
	"math/big"
	"os"
	"reflect"
	"strings"
	"testing"

	"pgregory.net/rapid"

	regenmath "github.com/regen-network/regen-ledger/types/v2/math"

	"verif/eng"
	"verif/ref"
)

// ---- generators: decimal strings from a grammar ----

func genDigits(t *rapid.T, label string, max int) string {
	n := rapid.IntRange(0, max).Draw(t, label+"n")
	var sb strings.Builder
	for i := 0; i < n; i++ {
		switch rapid.IntRange(0, 5).Draw(t, label+"k") {
		case 0:
			sb.WriteByte('0')
		case 1:
			sb.WriteByte('9')
		default:
			sb.WriteByte(byte('0' + rapid.IntRange(0, 9).Draw(t, label+"d")))
		}
	}
	return sb.String()
}

func genDecString(t *rapid.T, label string) string {
	switch rapid.IntRange(0, 19).Draw(t, label+"special") {
	case 0:
		return rapid.SampledFrom([]string{"0", "-0", "0e5", "0.000", "+0", "0E-3", "-0.0", "00", "1", "-1", "10", "0.1", "1e34", "1e-34", "9999999999999999999999999999999999", "0.000001", "1e6", "100000000000000000000"}).Draw(t, label+"sp")
	}
	sign := rapid.SampledFrom([]string{"", "", "", "+", "-"}).Draw(t, label+"sign")
	ip := genDigits(t, label+"int", 40)
	fp := ""
	dot := rapid.IntRange(0, 2).Draw(t, label+"dot")
	if dot > 0 {
		fp = genDigits(t, label+"frac", 40-len(ip)+1)
	}
	if ip == "" && fp == "" {
		ip = "7"
	}
	s := sign + ip
	if dot > 0 {
		s += "." + fp
	}
	if rapid.IntRange(0, 3).Draw(t, label+"hasexp") == 0 {
		e := rapid.IntRange(-30, 40).Draw(t, label+"exp")
		es := fmt.Sprintf("%d", e)
		if e >= 0 && rapid.Bool().Draw(t, label+"plus") {
			es = "+" + es
		}
		s += rapid.SampledFrom([]string{"e", "E"}).Draw(t, label+"e") + es
	}
	return s
}

// genPair biases the second operand towards the first (equal magnitudes, one ulp apart).
func genPair(t *rapid.T) (string, string) {
	a := genDecString(t, "a")
	switch rapid.IntRange(0, 6).Draw(t, "pairmode") {
	case 0:
		return a, a
	case 1:
		// one unit in the last place apart
		r, ok := ref.ParseRat(a)
		if ok {
			dp := 0
			if i := strings.IndexByte(a, '.'); i >= 0 && !strings.ContainsAny(a, "eE") {
				dp = len(a) - i - 1
			}
			ulp := new(big.Rat).SetFrac(big.NewInt(1), ref.Pow10(dp))
			return a, ref.RatString(new(big.Rat).Add(r, ulp))
		}
	case 3:
		// small integer fractions: long periodic quotients (half-way and double-rounding traps)
		return fmt.Sprintf("%d", rapid.IntRange(1, 2000).Draw(t, "num")), fmt.Sprintf("%d", rapid.IntRange(1, 2000).Draw(t, "den"))
	case 2:
		// operands whose product / quotient straddles 34 digits
		return genDigits(t, "p", 20) + "7." + genDigits(t, "q", 17), genDigits(t, "r", 17) + "3." + genDigits(t, "s", 3)
	}
	return a, genDecString(t, "b")
}

// ---- deep fingerprint of a Dec (coefficient words, sign, exponent, form) ----

func fingerprint(d regenmath.Dec) string {
	var sb strings.Builder
	var walk func(v reflect.Value)
	walk = func(v reflect.Value) {
		switch v.Kind() {
		case reflect.Struct:
			for i := 0; i < v.NumField(); i++ {
				walk(v.Field(i))
				sb.WriteByte(';')
			}
		case reflect.Slice, reflect.Array:
			fmt.Fprintf(&sb, "[%d:", v.Len())
			for i := 0; i < v.Len(); i++ {
				walk(v.Index(i))
				sb.WriteByte(',')
			}
			sb.WriteByte(']')
		case reflect.Bool:
			fmt.Fprintf(&sb, "%v", v.Bool())
		case reflect.Int, reflect.Int8, reflect.Int16, reflect.Int32, reflect.Int64:
			fmt.Fprintf(&sb, "%d", v.Int())
		case reflect.Uint, reflect.Uint8, reflect.Uint16, reflect.Uint32, reflect.Uint64, reflect.Uintptr:
			fmt.Fprintf(&sb, "%d", v.Uint())
		case reflect.Ptr, reflect.Interface:
			if v.IsNil() {
				sb.WriteString("nil")
			} else {
				walk(v.Elem())
			}
		default:
			fmt.Fprintf(&sb, "?%s", v.Kind())
		}
	}
	walk(reflect.ValueOf(d))
	return sb.String()
}

type c19Failure struct {
	A, B string
	Why  string
}

func (f c19Failure) Error() string { return fmt.Sprintf("a=%q b=%q: %s", f.A, f.B, f.Why) }

// ulp34 is one unit in the 34th significant digit of exact. "Correct to 34 significant
// digits" is checked as: the error is at most HALF of that unit (the result is what the
// exact value rounds to at 34 digits; ties may go either way).
func ulp34(exact *big.Rat) *big.Rat {
	if exact.Sign() == 0 {
		return new(big.Rat)
	}
	abs := new(big.Rat).Abs(exact)
	// find k with 10^k <= abs < 10^(k+1)
	k := len(new(big.Int).Quo(abs.Num(), abs.Denom()).String()) - 1
	if abs.Cmp(big.NewRat(1, 1)) < 0 {
		k = -1
		x := new(big.Rat).Set(abs)
		ten := big.NewRat(10, 1)
		for x.Mul(x, ten); x.Cmp(big.NewRat(1, 1)) < 0; x.Mul(x, ten) {
			k--
		}
	}
	e := k - 33
	if e >= 0 {
		return new(big.Rat).SetInt(ref.Pow10(e))
	}
	return new(big.Rat).SetFrac(big.NewInt(1), ref.Pow10(-e))
}

func halfUlp34(exact *big.Rat) *big.Rat {
	return new(big.Rat).Mul(ulp34(exact), big.NewRat(1, 2))
}

func refDecimalPlaces(s string) (uint32, bool) {
	// digits after the point minus the exponent, floored at zero
	body, exp := s, 0
	if i := strings.IndexAny(s, "eE"); i >= 0 {
		body = s[:i]
		if _, err := fmt.Sscanf(s[i+1:], "%d", &exp); err != nil {
			return 0, false
		}
	}
	frac := 0
	if i := strings.IndexByte(body, '.'); i >= 0 {
		frac = len(body) - i - 1
	}
	n := frac - exp
	if n < 0 {
		n = 0
	}
	return uint32(n), true
}

// checkC19 checks every clause of the property on one pair of decimal strings.
// nontrivial reports whether the exact product or quotient is not representable
// in 34 digits, or a zero/negative edge is involved.
func checkC19(as, bs string) (nontrivial bool, err error) {
	fail := func(f string, a ...interface{}) (bool, error) {
		return false, c19Failure{as, bs, fmt.Sprintf(f, a...)}
	}
	ra, oka := ref.ParseRat(as)
	rb, okb := ref.ParseRat(bs)
	a, erra := regenmath.NewDecFromString(as)
	b, errb := regenmath.NewDecFromString(bs)
	if oka && erra != nil {
		return fail("parser rejects the valid decimal %q: %v", as, erra)
	}
	if okb && errb != nil {
		return fail("parser rejects the valid decimal %q: %v", bs, errb)
	}
	if erra != nil || errb != nil {
		return false, nil
	}
	if !oka || !okb {
		return false, nil // outside the reference grammar (e.g. NaN spellings are rejected above)
	}
	val := func(d regenmath.Dec) (*big.Rat, error) {
		s := d.String()
		if strings.ContainsAny(s, "eE") {
			return nil, fmt.Errorf("String() = %q is not plain notation", s)
		}
		r, ok := ref.ParseRat(s)
		if !ok {
			return nil, fmt.Errorf("String() = %q does not re-parse", s)
		}
		d2, err := regenmath.NewDecFromString(s)
		if err != nil || d2.Cmp(d) != 0 {
			return nil, fmt.Errorf("String() = %q re-parses to a different number (%v)", s, err)
		}
		return r, nil
	}
	va, err := val(a)
	if err != nil {
		return fail("a: %v", err)
	}
	vb, err := val(b)
	if err != nil {
		return fail("b: %v", err)
	}
	if va.Cmp(ra) != 0 {
		return fail("parse(%q) = %s, exact value %s", as, a, ref.RatString(ra))
	}
	if vb.Cmp(rb) != 0 {
		return fail("parse(%q) = %s, exact value %s", bs, b, ref.RatString(rb))
	}
	fa, fb := fingerprint(a), fingerprint(b)
	unchanged := func(op string) error {
		if fingerprint(a) != fa || fingerprint(b) != fb {
			return fmt.Errorf("%s modified an operand", op)
		}
		return nil
	}
	// predicates
	if a.IsZero() != (ra.Sign() == 0) || a.IsNegative() != (ra.Sign() < 0) || a.IsPositive() != (ra.Sign() > 0) {
		return fail("sign predicates of %q: zero=%v neg=%v pos=%v", as, a.IsZero(), a.IsNegative(), a.IsPositive())
	}
	if a.Cmp(b) != ra.Cmp(rb) || a.Equal(b) != (ra.Cmp(rb) == 0) {
		return fail("Cmp = %d Equal = %v, exact comparison %d", a.Cmp(b), a.Equal(b), ra.Cmp(rb))
	}
	if dp, ok := refDecimalPlaces(as); ok && a.NumDecimalPlaces() != dp {
		return fail("NumDecimalPlaces(%q) = %d, want %d", as, a.NumDecimalPlaces(), dp)
	}
	// add / sub: exact
	sum, err := a.Add(b)
	if err != nil {
		return fail("Add: %v", err)
	}
	if v, err := val(sum); err != nil || v.Cmp(new(big.Rat).Add(ra, rb)) != 0 {
		return fail("Add = %s (%v), exact %s", sum, err, ref.RatString(new(big.Rat).Add(ra, rb)))
	}
	dif, err := a.Sub(b)
	if err != nil {
		return fail("Sub: %v", err)
	}
	exactDif := new(big.Rat).Sub(ra, rb)
	if v, err := val(dif); err != nil || v.Cmp(exactDif) != 0 {
		return fail("Sub = %s (%v), exact %s", dif, err, ref.RatString(exactDif))
	}
	if err := unchanged("Add/Sub"); err != nil {
		return fail("%v", err)
	}
	// guarded subtraction
	for name, f := range map[string]func(x, y regenmath.Dec) (regenmath.Dec, error){"SafeSubBalance": regenmath.SafeSubBalance, "SubNonNegative": regenmath.SubNonNegative} {
		z, err := f(a, b)
		if exactDif.Sign() < 0 {
			if err == nil {
				return fail("%s returned %s without error although the exact result %s is negative", name, z, ref.RatString(exactDif))
			}
		} else {
			if err != nil {
				return fail("%s failed (%v) although the exact result %s is not negative", name, err, ref.RatString(exactDif))
			}
			if v, err := val(z); err != nil || v.Cmp(exactDif) != 0 {
				return fail("%s = %s (%v), exact %s", name, z, err, ref.RatString(exactDif))
			}
		}
	}
	if ra.Sign() >= 0 && rb.Sign() >= 0 {
		z, err := regenmath.SafeAddBalance(a, b)
		if err != nil {
			return fail("SafeAddBalance: %v", err)
		}
		if v, err := val(z); err != nil || v.Cmp(new(big.Rat).Add(ra, rb)) != 0 {
			return fail("SafeAddBalance = %s, exact %s", z, ref.RatString(new(big.Rat).Add(ra, rb)))
		}
	}
	if err := unchanged("SafeSubBalance/SubNonNegative/SafeAddBalance"); err != nil {
		return fail("%v", err)
	}
	// multiplication
	exactMul := new(big.Rat).Mul(ra, rb)
	if d := ref.SigDigits(exactMul); d > 34 {
		nontrivial = true
	}
	if z, err := a.MulExact(b); err == nil {
		if v, err := val(z); err != nil || v.Cmp(exactMul) != 0 {
			return fail("MulExact = %s without error, exact %s", z, ref.RatString(exactMul))
		}
	}
	if z, err := a.Mul(b); err != nil {
		return fail("Mul: %v", err)
	} else if v, err := val(z); err != nil || new(big.Rat).Abs(new(big.Rat).Sub(v, exactMul)).Cmp(halfUlp34(exactMul)) > 0 && exactMul.Sign() != 0 || exactMul.Sign() == 0 && v.Sign() != 0 {
		return fail("Mul = %s (%v), exact %s: off by more than half a unit in the 34th significant digit", z, err, ref.RatString(exactMul))
	}
	// division
	if rb.Sign() == 0 {
		if z, err := a.Quo(b); err == nil {
			return fail("Quo by zero returned %s", z)
		}
		if z, err := a.QuoExact(b); err == nil {
			return fail("QuoExact by zero returned %s", z)
		}
		nontrivial = true
	} else {
		exactQuo := new(big.Rat).Quo(ra, rb)
		if d := ref.SigDigits(exactQuo); d > 34 || d < 0 {
			nontrivial = true
		}
		if z, err := a.QuoExact(b); err == nil {
			if v, err := val(z); err != nil || v.Cmp(exactQuo) != 0 {
				return fail("QuoExact = %s without error, exact %s", z, ref.RatString(exactQuo))
			}
		}
		if z, err := a.Quo(b); err != nil {
			return fail("Quo: %v", err)
		} else if v, err := val(z); err != nil || exactQuo.Sign() != 0 && new(big.Rat).Abs(new(big.Rat).Sub(v, exactQuo)).Cmp(halfUlp34(exactQuo)) > 0 || exactQuo.Sign() == 0 && v.Sign() != 0 {
			return fail("Quo = %s (%v), exact %s: off by more than half a unit in the 34th significant digit", z, err, ref.RatString(exactQuo))
		}
	}
	if err := unchanged("Mul/Quo"); err != nil {
		return fail("%v", err)
	}
	// integer conversions
	if ref.TruncInt(ra).BitLen() <= 255 { // sdk.Int holds 256 bits: larger values are outside the coin domain
		if got := a.SdkIntTrim().BigInt(); got.Cmp(ref.TruncInt(ra)) != 0 {
			return fail("SdkIntTrim(%q) = %s, truncation toward zero is %s", as, got, ref.TruncInt(ra))
		}
	}
	if z, err := a.BigInt(); ra.IsInt() {
		if err != nil || z.Cmp(ra.Num()) != 0 {
			return fail("BigInt(%q) = %v, %v; exact integer %s", as, z, err, ra.Num())
		}
	} else if err == nil {
		return fail("BigInt(%q) = %s without error for a non-integer", as, z)
	}
	if err := unchanged("SdkIntTrim/BigInt"); err != nil {
		return fail("%v", err)
	}
	// aliasing: feed results to further operations, operands must stay bit-identical
	s2, _ := sum.Add(sum)
	_, _ = s2.Sub(a)
	_, _ = sum.Mul(dif)
	if ref.TruncInt(exactDif).BitLen() <= 255 {
		_ = dif.SdkIntTrim()
	}
	_, _ = sum.BigInt()
	r1, _ := a.Reduce()
	_, _ = r1.Add(b)
	if err := unchanged("operations on results (aliasing)"); err != nil {
		return fail("%v", err)
	}
	if ra.Sign() <= 0 || rb.Sign() <= 0 {
		nontrivial = true
	}
	return nontrivial, nil
}

func recordPure(prop string, nt bool, sig string, sample interface{}) {
	eng.G.Eval()
	if nt {
		eng.G.Label("nontrivial")
		eng.G.NT(sig)
		if eng.G.WantSample() {
			eng.G.Sample(sample)
		}
	}
}

func TestC19(t *testing.T) {
	rapid.Check(t, func(t *rapid.T) {
		a, b := genPair(t)
		nt, err := checkC19(a, b)
		if err != nil {
			saveCase("C19", map[string]string{"a": a, "b": b})
			t.Fatalf("PROPERTY-FAIL C19: %v", err)
		}
		recordPure("C19", nt, a+"|"+b, map[string]string{"a": a, "b": b})
	})
}

// saveCase writes a failing pure case as JSON (the replay file).
func saveCase(prop string, v interface{}) string {
	dir := os.Getenv("VERIF_OUT")
	if dir == "" {
		dir = os.TempDir()
	}
	_ = os.MkdirAll(dir, 0o755)
	p := fmt.Sprintf("%s/%s-case.json", dir, prop)
	bz, _ := json.MarshalIndent(v, "", " ")
	_ = os.WriteFile(p, bz, 0o644)
	eng.G.AddViolation(eng.Violation{Property: prop, Key: "pure-case", Msg: string(bz), Replay: p})
	eng.G.Flush()
	return p
}

func loadCases(prop string) []map[string]json.RawMessage {
	var out []map[string]json.RawMessage
	for _, f := range witnessFiles(prop, ".json") {
		bz, err := os.ReadFile(f)
		if err != nil {
			continue
		}
		var m map[string]json.RawMessage
		if json.Unmarshal(bz, &m) == nil {
			out = append(out, m)
		}
	}
	return out
}

func str(m map[string]json.RawMessage, k string) string {
	var s string
	_ = json.Unmarshal(m[k], &s)
	return s
}

func TestC19Witness(t *testing.T) {
	for _, c := range loadCases("C19") {
		if _, err := checkC19(str(c, "a"), str(c, "b")); err != nil {
			t.Fatalf("PROPERTY-FAIL C19 witness: %v", err)
		}
	}
}

func TestC19Replay(t *testing.T) {
	p := os.Getenv("VERIF_REPLAY")
	if p == "" {
		t.Skip()
	}
	bz, err := os.ReadFile(p)
	if err != nil {
		t.Fatalf("harness: %v", err)
	}
	var m map[string]json.RawMessage
	if err := json.Unmarshal(bz, &m); err != nil {
		t.Fatalf("harness: %v", err)
	}
	if _, err := checkC19(str(m, "a"), str(m, "b")); err != nil {
		t.Fatalf("PROPERTY-FAIL C19: %v", err)
	}
}

func FuzzC19(f *testing.F) {
	for _, s := range [][2]string{{"1", "3"}, {"0.000001", "1e29"}, {"-0", "0e5"}, {"9999999999999999999999999999999999", "1.000000000000000000000000000000001"}, {"+5.", ".5"}, {"1e-30", "1E+40"}} {
		f.Add(s[0], s[1])
	}
	f.Fuzz(func(t *testing.T, a, b string) {
		if len(a) > 90 || len(b) > 90 {
			return
		}
		for _, s := range []string{a, b} {
			if i := strings.IndexAny(s, "eE"); i >= 0 {
				var e int
				if _, err := fmt.Sscanf(s[i+1:], "%d", &e); err != nil || e > 60 || e < -60 {
					return // keep magnitudes within the property's stated range
				}
			}
		}
		if _, err := checkC19(a, b); err != nil {
			t.Fatalf("PROPERTY-FAIL C19: %v", err)
		}
	})
}
