package ref

import "math/big"

// Settlement is the exact (rational) outcome of filling one order.
type Settlement struct {
	SubTotal  *big.Rat // q * ask
	BuyerFee  *big.Rat // subtotal * buyer rate
	SellerFee *big.Rat // subtotal * seller rate
	SellerPay *big.Rat // subtotal - seller fee
	PoolFee   *big.Rat // buyer fee + seller fee
	Total     *big.Rat // subtotal + buyer fee  (= SellerPay + PoolFee)
}

// Settle computes the exact settlement of buying q credits at ask per credit.
func Settle(q *big.Rat, ask *big.Int, buyerRate, sellerRate *big.Rat) Settlement {
	sub := new(big.Rat).Mul(q, new(big.Rat).SetInt(ask))
	bf := new(big.Rat).Mul(sub, buyerRate)
	sf := new(big.Rat).Mul(sub, sellerRate)
	return Settlement{
		SubTotal: sub, BuyerFee: bf, SellerFee: sf,
		SellerPay: new(big.Rat).Sub(sub, sf),
		PoolFee:   new(big.Rat).Add(bf, sf),
		Total:     new(big.Rat).Add(sub, bf),
	}
}

// Rate parses a stored fee rate ("" means zero). ok=false if unparsable.
func Rate(s string) (*big.Rat, bool) {
	if s == "" {
		return new(big.Rat), true
	}
	return ParseRat(s)
}

// SigDigits returns the number of significant decimal digits needed to write
// r exactly, or -1 if r has no finite decimal expansion.
func SigDigits(r *big.Rat) int {
	if r.Sign() == 0 {
		return 1
	}
	d := new(big.Int).Set(r.Denom())
	two, five := 0, 0
	for new(big.Int).Mod(d, big.NewInt(2)).Sign() == 0 {
		d.Quo(d, big.NewInt(2))
		two++
	}
	for new(big.Int).Mod(d, big.NewInt(5)).Sign() == 0 {
		d.Quo(d, big.NewInt(5))
		five++
	}
	if d.Cmp(big.NewInt(1)) != 0 {
		return -1
	}
	k := two
	if five > k {
		k = five
	}
	n := new(big.Rat).Mul(r, new(big.Rat).SetInt(Pow10(k)))
	c := new(big.Int).Abs(n.Num())
	// strip trailing zeros
	ten := big.NewInt(10)
	for c.Sign() != 0 && new(big.Int).Mod(c, ten).Sign() == 0 {
		c.Quo(c, ten)
	}
	return len(c.String())
}
