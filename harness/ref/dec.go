// Package ref holds exact references written independently of the code under
// test: a decimal-string parser into math/big.Rat and helpers.
package ref

import (
	"fmt"
	"math/big"
	"strings"
)

// ParseRat parses [+-]digits[.digits][(e|E)[+-]digits] (also ".5", "5.") exactly.
// It is written from the grammar, not from the code under test.
func ParseRat(s string) (*big.Rat, bool) {
	if s == "" {
		return nil, false
	}
	i := 0
	neg := false
	if s[i] == '+' || s[i] == '-' {
		neg = s[i] == '-'
		i++
	}
	intStart := i
	for i < len(s) && s[i] >= '0' && s[i] <= '9' {
		i++
	}
	intPart := s[intStart:i]
	frac := ""
	if i < len(s) && s[i] == '.' {
		i++
		fs := i
		for i < len(s) && s[i] >= '0' && s[i] <= '9' {
			i++
		}
		frac = s[fs:i]
	}
	if intPart == "" && frac == "" {
		return nil, false
	}
	exp := int64(0)
	if i < len(s) && (s[i] == 'e' || s[i] == 'E') {
		i++
		eneg := false
		if i < len(s) && (s[i] == '+' || s[i] == '-') {
			eneg = s[i] == '-'
			i++
		}
		es := i
		for i < len(s) && s[i] >= '0' && s[i] <= '9' {
			i++
		}
		if es == i || i-es > 9 {
			return nil, false
		}
		for _, ch := range s[es:i] {
			exp = exp*10 + int64(ch-'0')
		}
		if eneg {
			exp = -exp
		}
	}
	if i != len(s) {
		return nil, false
	}
	coef, ok := new(big.Int).SetString(intPart+frac, 10)
	if !ok {
		return nil, false
	}
	if neg {
		coef.Neg(coef)
	}
	exp -= int64(len(frac))
	r := new(big.Rat).SetInt(coef)
	if exp > 0 {
		r.Mul(r, new(big.Rat).SetInt(Pow10(int(exp))))
	} else if exp < 0 {
		r.Quo(r, new(big.Rat).SetInt(Pow10(int(-exp))))
	}
	return r, true
}

// MustRat parses a stored amount; the empty string counts as zero (the ORM
// stores unset string fields as ""). Panics on anything unparsable.
func MustRat(s string) *big.Rat {
	if s == "" {
		return new(big.Rat)
	}
	r, ok := ParseRat(s)
	if !ok {
		panic(fmt.Sprintf("harness: unparsable amount %q (accepted by the code, not by the reference parser)", s))
	}
	return r
}

func Pow10(n int) *big.Int {
	return new(big.Int).Exp(big.NewInt(10), big.NewInt(int64(n)), nil)
}

// WithinPrecision reports whether r * 10^prec is an integer.
func WithinPrecision(r *big.Rat, prec uint32) bool {
	x := new(big.Rat).Mul(r, new(big.Rat).SetInt(Pow10(int(prec))))
	return x.IsInt()
}

// TextDecimalPlaces counts the digits after the point of a plain decimal string
// (-1 if the string uses an exponent or is not plain).
func TextDecimalPlaces(s string) int {
	if strings.ContainsAny(s, "eE") {
		return -1
	}
	if i := strings.IndexByte(s, '.'); i >= 0 {
		return len(s) - i - 1
	}
	return 0
}

// RatString renders a rational as an exact plain decimal when possible,
// otherwise as a fraction.
func RatString(r *big.Rat) string {
	if r.IsInt() {
		return r.Num().String()
	}
	// try up to 60 decimals
	for p := 1; p <= 60; p++ {
		x := new(big.Rat).Mul(r, new(big.Rat).SetInt(Pow10(p)))
		if x.IsInt() {
			return r.FloatString(p)
		}
	}
	return r.String()
}

// Floor returns floor(r) for r >= 0 and truncation toward zero in general is
// TruncInt.
func Floor(r *big.Rat) *big.Int {
	q := new(big.Int)
	m := new(big.Int)
	q.DivMod(r.Num(), r.Denom(), m) // Euclidean: floor for positive denominators
	return q
}

// TruncInt truncates toward zero.
func TruncInt(r *big.Rat) *big.Int {
	return new(big.Int).Quo(r.Num(), r.Denom())
}
