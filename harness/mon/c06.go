package mon

import (
	"fmt"
	"math/big"

	markettypes "github.com/regen-network/regen-ledger/x/ecocredit/v3/marketplace/types/v1"

	"verif/eng"
	"verif/ref"
	"verif/snap"
)

// C06 — escrow equals the open sell orders; order well-formedness; allowed denoms.
type C06 struct {
	eng.BaseMonitor
	updateAfterPartialFill bool
	expiryAfterUpdate      bool
	partiallyFilled        map[uint64]bool
	updated                map[uint64]bool
}

func (*C06) Property() string { return "C06" }

func (m *C06) Init(w *eng.World) {
	m.partiallyFilled, m.updated = map[uint64]bool{}, map[uint64]bool{}
	m.check(w, w.S, "genesis")
}

func (m *C06) AfterMsg(w *eng.World, st *eng.MsgStep) {
	if !st.Res.OK {
		return
	}
	allowed := map[string]bool{}
	for _, d := range st.Pre.AllowedDenoms {
		allowed[d.BankDenom] = true
	}
	switch msg := st.Msg.(type) {
	case *markettypes.MsgSell:
		for i, o := range msg.Orders {
			if !allowed[o.AskPrice.Denom] {
				w.Violation("C06", "sell-denom-not-allowed", "accepted Sell order[%d] asks in %s which is not an allowed denom", i, o.AskPrice.Denom)
			}
		}
	case *markettypes.MsgUpdateSellOrders:
		for i, u := range msg.Updates {
			if u.NewAskPrice != nil && !allowed[u.NewAskPrice.Denom] {
				w.Violation("C06", "update-denom-not-allowed", "accepted UpdateSellOrders update[%d] asks in %s which is not an allowed denom", i, u.NewAskPrice.Denom)
			}
			if m.partiallyFilled[u.SellOrderId] {
				m.updateAfterPartialFill = true
			}
			m.updated[u.SellOrderId] = true
		}
	case *markettypes.MsgBuyDirect:
		for _, o := range msg.Orders {
			if st.Post.OrderByID(o.SellOrderId) != nil {
				m.partiallyFilled[o.SellOrderId] = true
			}
		}
	}
	m.check(w, st.Post, "msg "+st.Kind)
}

func (m *C06) AfterBlock(w *eng.World, st *eng.BlockStep) {
	for _, o := range st.Pre.SellOrders {
		if st.Post.OrderByID(o.Id) == nil && m.updated[o.Id] {
			m.expiryAfterUpdate = true
		}
	}
	m.check(w, st.Post, "block")
}

func (m *C06) check(w *eng.World, s *snap.Snap, where string) {
	sums := map[string]*rat{}
	for _, o := range s.SellOrders {
		b := s.BatchByKey(o.BatchKey)
		if b == nil {
			w.Violation("C06", "order-batch-missing", "%s: sell order %d references missing batch key %d", where, o.Id, o.BatchKey)
			continue
		}
		if s.MarketByID(o.MarketId) == nil {
			w.Violation("C06", "order-market-missing", "%s: sell order %d references missing market %d", where, o.Id, o.MarketId)
		}
		q, ok := ref.ParseRat(o.Quantity)
		if !ok || q.Sign() <= 0 {
			w.Violation("C06", "order-quantity-not-positive", "%s: sell order %d has quantity %q", where, o.Id, o.Quantity)
			continue
		}
		if !ref.WithinPrecision(q, s.PrecisionOfBatch(b)) {
			w.Violation("C06", "order-quantity-precision", "%s: sell order %d quantity %q exceeds precision", where, o.Id, o.Quantity)
		}
		a, ok := new(big.Int).SetString(o.AskAmount, 10)
		if !ok || a.Sign() <= 0 {
			w.Violation("C06", "order-ask-not-positive-integer", "%s: sell order %d has ask amount %q", where, o.Id, o.AskAmount)
		}
		k := balKey(o.Seller, o.BatchKey)
		if sums[k] == nil {
			sums[k] = zero()
		}
		sums[k].Add(sums[k], q)
	}
	seen := map[string]bool{}
	for _, b := range s.Balances {
		k := balKey(b.Address, b.BatchKey)
		seen[k] = true
		want := sums[k]
		if want == nil {
			want = zero()
		}
		if ref.MustRat(b.EscrowedAmount).Cmp(want) != 0 {
			w.Violation("C06", "escrow-differs-from-orders", "%s: account %x batch %d escrowed %s but open orders sum to %s", where, b.Address, b.BatchKey, b.EscrowedAmount, ref.RatString(want))
		}
	}
	for k, v := range sums {
		if !seen[k] && v.Sign() != 0 {
			w.Violation("C06", "orders-without-balance-row", "%s: open orders of %s sum to %s but there is no balance row", where, k, ref.RatString(v))
		}
	}
}

func (m *C06) Finish(*eng.World) bool { return m.updateAfterPartialFill || m.expiryAfterUpdate }

var _ = fmt.Sprintf
