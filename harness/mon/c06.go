package mon

import (
	"fmt"
	"math/big"
	"time"

	sdk "github.com/cosmos/cosmos-sdk/types"

	markettypes "github.com/regen-network/regen-ledger/x/ecocredit/v3/marketplace/types/v1"

	"verif/eng"
	"verif/ref"
	"verif/snap"
)

// C06 — escrow equals the open sell orders; order well-formedness; allowed denoms.
type C06 struct {
	eng.BaseMonitor
	updateAfterPartialFill bool
	expiryAfterUpdate      bool
	partiallyFilled        map[uint64]bool
	updated                map[uint64]bool
}

func (*C06) Property() string { return "C06" }

func (m *C06) Init(w *eng.World) {
	m.partiallyFilled, m.updated = map[uint64]bool{}, map[uint64]bool{}
	m.check(w, w.S, "genesis")
}

func (m *C06) AfterMsg(w *eng.World, st *eng.MsgStep) {
	if !st.Res.OK {
		return
	}
	allowed := map[string]bool{}
	for _, d := range st.Pre.AllowedDenoms {
		allowed[d.BankDenom] = true
	}
	switch msg := st.Msg.(type) {
	case *markettypes.MsgSell:
		for i, o := range msg.Orders {
			if !allowed[o.AskPrice.Denom] {
				w.Violation("C06", "sell-denom-not-allowed", "accepted Sell order[%d] asks in %s which is not an allowed denom", i, o.AskPrice.Denom)
			}
		}
		// the stored orders are what the seller stated
		if resp, ok := st.Res.RespMsg.(*markettypes.MsgSellResponse); ok && len(resp.SellOrderIds) == len(msg.Orders) {
			seller, _ := sdk.AccAddressFromBech32(msg.Seller)
			for i, id := range resp.SellOrderIds {
				m.orderMatches(w, st.Post, "Sell", id, seller, msg.Orders[i].BatchDenom, msg.Orders[i].Quantity, msg.Orders[i].AskPrice, msg.Orders[i].DisableAutoRetire, msg.Orders[i].Expiration, true)
			}
		} else {
			w.Violation("C06", "sell-response-wrong", "Sell of %d orders returned %v", len(msg.Orders), st.Res.RespMsg)
		}
	case *markettypes.MsgUpdateSellOrders:
		for i, u := range msg.Updates {
			if u.NewAskPrice != nil && !allowed[u.NewAskPrice.Denom] {
				w.Violation("C06", "update-denom-not-allowed", "accepted UpdateSellOrders update[%d] asks in %s which is not an allowed denom", i, u.NewAskPrice.Denom)
			}
			if m.partiallyFilled[u.SellOrderId] {
				m.updateAfterPartialFill = true
			}
			m.updated[u.SellOrderId] = true
		}
		// the last update of each order in the message is what is stored afterwards
		last := map[uint64]*markettypes.MsgUpdateSellOrders_Update{}
		lastExp := map[uint64]*time.Time{}
		for _, u := range msg.Updates {
			last[u.SellOrderId] = u
			if u.NewExpiration != nil {
				lastExp[u.SellOrderId] = u.NewExpiration
			}
		}
		for id, u := range last {
			pre := st.Pre.OrderByID(id)
			if pre == nil {
				continue
			}
			exp := lastExp[id] // an update without expiration keeps the current one
			if exp == nil && pre.Expiration != nil {
				t := pre.Expiration.AsTime()
				exp = &t
			}
			den := ""
			if b := st.Pre.BatchByKey(pre.BatchKey); b != nil {
				den = b.Denom
			}
			m.orderMatches(w, st.Post, "UpdateSellOrders", id, pre.Seller, den, u.NewQuantity, u.NewAskPrice, u.DisableAutoRetire, exp, true)
		}
	case *markettypes.MsgBuyDirect:
		for _, o := range msg.Orders {
			if st.Post.OrderByID(o.SellOrderId) != nil {
				m.partiallyFilled[o.SellOrderId] = true
			}
		}
	}
	m.check(w, st.Post, "msg "+st.Kind)
}

func (m *C06) AfterBlock(w *eng.World, st *eng.BlockStep) {
	for _, o := range st.Pre.SellOrders {
		if st.Post.OrderByID(o.Id) == nil && m.updated[o.Id] {
			m.expiryAfterUpdate = true
		}
	}
	m.check(w, st.Post, "block")
}

func (m *C06) check(w *eng.World, s *snap.Snap, where string) {
	sums := map[string]*rat{}
	for _, o := range s.SellOrders {
		b := s.BatchByKey(o.BatchKey)
		if b == nil {
			w.Violation("C06", "order-batch-missing", "%s: sell order %d references missing batch key %d", where, o.Id, o.BatchKey)
			continue
		}
		if s.MarketByID(o.MarketId) == nil {
			w.Violation("C06", "order-market-missing", "%s: sell order %d references missing market %d", where, o.Id, o.MarketId)
		}
		q, ok := ref.ParseRat(o.Quantity)
		if !ok || q.Sign() <= 0 {
			w.Violation("C06", "order-quantity-not-positive", "%s: sell order %d has quantity %q", where, o.Id, o.Quantity)
			continue
		}
		if !ref.WithinPrecision(q, s.PrecisionOfBatch(b)) {
			w.Violation("C06", "order-quantity-precision", "%s: sell order %d quantity %q exceeds precision", where, o.Id, o.Quantity)
		}
		a, ok := new(big.Int).SetString(o.AskAmount, 10)
		if !ok || a.Sign() <= 0 {
			w.Violation("C06", "order-ask-not-positive-integer", "%s: sell order %d has ask amount %q", where, o.Id, o.AskAmount)
		}
		k := balKey(o.Seller, o.BatchKey)
		if sums[k] == nil {
			sums[k] = zero()
		}
		sums[k].Add(sums[k], q)
	}
	seen := map[string]bool{}
	for _, b := range s.Balances {
		k := balKey(b.Address, b.BatchKey)
		seen[k] = true
		want := sums[k]
		if want == nil {
			want = zero()
		}
		if ref.MustRat(b.EscrowedAmount).Cmp(want) != 0 {
			w.Violation("C06", "escrow-differs-from-orders", "%s: account %x batch %d escrowed %s but open orders sum to %s", where, b.Address, b.BatchKey, b.EscrowedAmount, ref.RatString(want))
		}
	}
	for k, v := range sums {
		if !seen[k] && v.Sign() != 0 {
			w.Violation("C06", "orders-without-balance-row", "%s: open orders of %s sum to %s but there is no balance row", where, k, ref.RatString(v))
		}
	}
}

// orderMatches: the stored order carries exactly the stated seller, batch, quantity (as a
// number), ask denom and amount, auto-retire flag and expiration.
func (m *C06) orderMatches(w *eng.World, s *snap.Snap, what string, id uint64, seller []byte, batchDenom, qty string, ask *sdk.Coin, dar bool, exp *time.Time, _ bool) {
	o := s.OrderByID(id)
	if o == nil {
		w.Violation("C06", "order-not-stored", "%s accepted but order %d is not in state", what, id)
		return
	}
	b := s.BatchByKey(o.BatchKey)
	mk := s.MarketByID(o.MarketId)
	q, ok := ref.ParseRat(qty)
	bad := ""
	switch {
	case string(o.Seller) != string(seller):
		bad = "seller"
	case b == nil || b.Denom != batchDenom:
		bad = "batch"
	case !ok || ref.MustRat(o.Quantity).Cmp(q) != 0:
		bad = "quantity"
	case mk == nil || ask == nil || mk.BankDenom != ask.Denom:
		bad = "ask denom"
	case o.AskAmount != ask.Amount.String():
		bad = "ask amount"
	case o.DisableAutoRetire != dar:
		bad = "disable_auto_retire"
	case (o.Expiration == nil) != (exp == nil) || (exp != nil && !o.Expiration.AsTime().Equal(*exp)):
		bad = "expiration"
	case mk != nil && b != nil && s.ClassOfBatch(b) != nil && mk.CreditTypeAbbrev != s.ClassOfBatch(b).CreditTypeAbbrev:
		bad = "market credit type"
	}
	if bad != "" {
		w.Violation("C06", "stored-order-differs-from-message/"+bad, "%s: order %d stored as %v (market %v) but the message states batch %s quantity %s ask %v disable_auto_retire %v expiration %v", what, id, o, mk, batchDenom, qty, ask, dar, exp)
	}
}

func (m *C06) Finish(*eng.World) bool { return m.updateAfterPartialFill || m.expiryAfterUpdate }

var _ = fmt.Sprintf
