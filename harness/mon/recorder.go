package mon

import (
	"crypto/sha256"
	"encoding/hex"
	"fmt"

	sdkerrors "cosmossdk.io/errors"

	"verif/eng"
)

// Recorder captures everything C10 compares between executions of one trace.
type Recorder struct {
	eng.BaseMonitor
	Lines []string // one line per step
	OKs   []bool   // per message step
}

func (*Recorder) Property() string { return "C10" }

func (r *Recorder) AfterMsg(w *eng.World, st *eng.MsgStep) {
	h := sha256.New()
	for _, e := range st.Res.Events {
		bz, _ := e.Marshal()
		h.Write(bz)
		h.Write([]byte{0})
	}
	errs := ""
	if st.Res.Err != nil && st.Res.Panic == nil {
		cs, code, _ := sdkerrors.ABCIInfo(st.Res.Err, false)
		errs = fmt.Sprintf("%s/%d", cs, code)
	} else if st.Res.Panic != nil {
		errs = "panic"
	}
	r.OKs = append(r.OKs, st.Res.OK)
	r.Lines = append(r.Lines, fmt.Sprintf("msg %s ok=%v gas=%d resp=%x events=%d/%s err=%q", st.Kind, st.Res.OK, st.Res.GasUsed, st.Res.Resp, len(st.Res.Events), hex.EncodeToString(h.Sum(nil)[:8]), errs))
}

func (r *Recorder) AfterBlock(w *eng.World, st *eng.BlockStep) {
	r.Lines = append(r.Lines, fmt.Sprintf("block hash=%x panic=%v", st.Hash, st.Panic))
}

// BlockHashes returns only the block lines.
func (r *Recorder) BlockHashes() []string {
	var out []string
	for _, l := range r.Lines {
		if len(l) > 5 && l[:5] == "block" {
			out = append(out, l)
		}
	}
	return out
}
