package mon

import (
	"fmt"
	"math/big"
	"time"

	sdk "github.com/cosmos/cosmos-sdk/types"

	basetypes "github.com/regen-network/regen-ledger/x/ecocredit/v3/base/types/v1"
	baskettypes "github.com/regen-network/regen-ledger/x/ecocredit/v3/basket/types/v1"
	markettypes "github.com/regen-network/regen-ledger/x/ecocredit/v3/marketplace/types/v1"

	"verif/chain"
	"verif/eng"
	"verif/ref"
	"verif/snap"
)

// C18 — fees are charged exactly; accepted parameters never disable a feature.
type C18 struct {
	eng.BaseMonitor
	boundaryConfigs int
	canaryRuns      int
}

func (*C18) Property() string { return "C18" }

func (m *C18) Init(w *eng.World) { m.canaries(w, "genesis") }

func storedFee(denom, amount string) *sdk.Coin {
	a, ok := sdk.NewIntFromString(amount)
	if !ok {
		return nil
	}
	return &sdk.Coin{Denom: denom, Amount: a}
}

func classFeeOf(s *snap.Snap) *sdk.Coin {
	if len(s.ClassFee) == 0 || s.ClassFee[0].Fee == nil {
		return nil
	}
	return storedFee(s.ClassFee[0].Fee.Denom, s.ClassFee[0].Fee.Amount)
}

func basketFeeOf(s *snap.Snap) *sdk.Coin {
	if len(s.BasketFee) == 0 || s.BasketFee[0].Fee == nil {
		return nil
	}
	return storedFee(s.BasketFee[0].Fee.Denom, s.BasketFee[0].Fee.Amount)
}

// checkCharge: an accepted creation moved exactly the fee from the creator and burnt it.
func (m *C18) checkCharge(w *eng.World, st *eng.MsgStep, what string, creator sdk.AccAddress, required *sdk.Coin, offered *sdk.Coin) {
	d := st.Diff()
	if required == nil || required.Amount.IsZero() { // a zero fee is no fee (MsgUpdateClassFee normalises it the same way)
		if len(d.Bank) != 0 || len(d.Supply) != 0 {
			w.Violation("C18", "charged-without-fee/"+what, "%s with no fee configured moved coins: %s", what, d.String())
		}
		return
	}
	if offered == nil || offered.Denom != required.Denom || offered.Amount.LT(required.Amount) {
		w.Violation("C18", "accepted-below-fee/"+what, "%s accepted with fee offer %v although %s is required", what, offered, required)
	}
	okBank := len(d.Bank) == 1 && d.Bank[0].Addr == creator.String() && d.Bank[0].Denom == required.Denom && new(big.Int).Neg(d.Bank[0].Delta).Cmp(required.Amount.BigInt()) == 0
	okSupply := len(d.Supply) == 1 && d.Supply[0].Denom == required.Denom && new(big.Int).Neg(d.Supply[0].Delta).Cmp(required.Amount.BigInt()) == 0
	if required.Amount.IsZero() {
		okBank, okSupply = len(d.Bank) == 0, len(d.Supply) == 0
	}
	if !okBank || !okSupply {
		w.Violation("C18", "fee-not-exact/"+what, "%s with required fee %s: bank/supply changes were %s (want: creator -fee, total supply -fee, nothing else)", what, required, d.String())
	}
}

func (m *C18) AfterMsg(w *eng.World, st *eng.MsgStep) {
	if !st.Res.OK {
		return
	}
	switch msg := st.Msg.(type) {
	case *basetypes.MsgCreateClass:
		a, _ := sdk.AccAddressFromBech32(msg.Admin)
		m.checkCharge(w, st, "CreateClass", a, classFeeOf(st.Pre), msg.Fee)
	case *baskettypes.MsgCreate:
		a, _ := sdk.AccAddressFromBech32(msg.Curator)
		var off *sdk.Coin
		if len(msg.Fee) > 0 {
			off = &msg.Fee[0]
		}
		m.checkCharge(w, st, "basket.Create", a, basketFeeOf(st.Pre), off)
	}
	// exact effect of configuration messages: what governance set is what is in force
	switch msg := st.Msg.(type) {
	case *basetypes.MsgUpdateClassFee:
		m.checkFeeEffect(w, "UpdateClassFee", msg.Fee, classFeeOf(st.Post))
	case *baskettypes.MsgUpdateBasketFee:
		m.checkFeeEffect(w, "UpdateBasketFee", msg.Fee, basketFeeOf(st.Post))
	case *markettypes.MsgGovSetFeeParams:
		if len(st.Post.FeeParams) == 0 || st.Post.FeeParams[0].BuyerPercentageFee != msg.Fees.BuyerPercentageFee || st.Post.FeeParams[0].SellerPercentageFee != msg.Fees.SellerPercentageFee {
			w.Violation("C18", "config-effect/fee-params", "GovSetFeeParams(%v) accepted but the stored fee params are %v", msg.Fees, st.Post.FeeParams)
		}
	case *markettypes.MsgAddAllowedDenom:
		found := false
		for _, d := range st.Post.AllowedDenoms {
			found = found || d.BankDenom == msg.BankDenom
		}
		if !found {
			w.Violation("C18", "config-effect/allowed-denom", "AddAllowedDenom(%s) accepted but the denom is not on the list", msg.BankDenom)
		}
	case *markettypes.MsgRemoveAllowedDenom:
		for _, d := range st.Post.AllowedDenoms {
			if d.BankDenom == msg.Denom {
				w.Violation("C18", "config-effect/allowed-denom", "RemoveAllowedDenom(%s) accepted but the denom is still on the list", msg.Denom)
			}
		}
	}
	switch st.Msg.(type) {
	case *basetypes.MsgUpdateClassFee, *baskettypes.MsgUpdateBasketFee, *markettypes.MsgGovSetFeeParams,
		*basetypes.MsgSetClassCreatorAllowlist, *basetypes.MsgAddClassCreator, *basetypes.MsgRemoveClassCreator,
		*markettypes.MsgAddAllowedDenom, *markettypes.MsgRemoveAllowedDenom, *basetypes.MsgAddCreditType,
		*basetypes.MsgAddAllowedBridgeChain, *basetypes.MsgRemoveAllowedBridgeChain:
		m.canaries(w, "after "+st.Kind)
	}
}

// checkFeeEffect: after an accepted fee update the fee in force is the message's fee
// (nil and zero both mean "no fee").
func (m *C18) checkFeeEffect(w *eng.World, what string, want *sdk.Coin, got *sdk.Coin) {
	wantNone := want == nil || want.Amount.IsNil() || want.Amount.IsZero()
	gotNone := got == nil || got.Amount.IsZero()
	if wantNone != gotNone || (!wantNone && (want.Denom != got.Denom || !want.Amount.Equal(got.Amount))) {
		w.Violation("C18", "config-effect/"+what, "%s(%v) accepted but the fee in force is %v", what, want, got)
	}
}

func rateClass(s string) string {
	if s == "" {
		return "unset"
	}
	r, ok := ref.ParseRat(s)
	switch {
	case !ok:
		return "not-a-number"
	case r.Sign() < 0:
		return "negative"
	case r.Sign() == 0:
		return "zero"
	case r.Cmp(big.NewRat(1, 1)) > 0:
		return ">1"
	}
	return "(0,1]"
}

func feeClass(c *sdk.Coin) string {
	switch {
	case c == nil:
		return "unset"
	case c.Amount.IsZero():
		return "zero"
	}
	return "positive"
}

// canaries runs user operations whose own preconditions are established by
// the harness, on a branch that is discarded afterwards. Every one of them
// must succeed under any accepted configuration.
func (m *C18) canaries(w *eng.World, when string) {
	s := w.S
	m.canaryRuns++
	eng.G.Count("C18/canary-runs", 1)
	c := w.C
	creator := w.Accts[2]
	if len(s.Allowlist) > 0 && s.Allowlist[0].Enabled {
		if len(s.AllowedCreators) == 0 {
			eng.G.Count("C18/skipped: allowlist on and empty (no eligible creator exists)", 1)
			creator = nil
		} else {
			creator = sdk.AccAddress(s.AllowedCreators[0].Address)
		}
	}
	cf, bf := classFeeOf(s), basketFeeOf(s)
	br, sr := "", ""
	if len(s.FeeParams) > 0 {
		br, sr = s.FeeParams[0].BuyerPercentageFee, s.FeeParams[0].SellerPercentageFee
	}
	boundary := feeClass(cf) == "zero" || feeClass(bf) == "zero" || rateClass(br) == "zero" || rateClass(sr) == "zero" || rateClass(br) == ">1" || rateClass(sr) == ">1" ||
		len(br) > 30 || len(sr) > 30 || br == "1" || sr == "1"
	if boundary {
		m.boundaryConfigs++
		w.Flags["boundary-config"] = true
	}
	seller, buyer, curator := w.Accts[3], w.Accts[4], w.Accts[1]
	abbrev := "C"
	if len(s.CreditTypes) > 0 {
		abbrev = s.CreditTypes[0].Abbreviation
	}
	fail := func(op, sig string, res chain.Result) {
		w.Violation("C18", "canary-failed/"+op+"/"+sig, "%s: %s whose own preconditions hold failed under an accepted configuration (%s): %v", when, op, sig, res.Err)
	}
	c.Sandbox(func() {
		fund := func(a sdk.AccAddress, coin *sdk.Coin) {
			if coin != nil && coin.Amount.IsPositive() {
				if err := c.Faucet(a, sdk.NewCoins(*coin)); err != nil {
					w.Fail("harness: faucet: %v", err)
				}
			}
		}
		bal := func(a sdk.AccAddress, d string) sdk.Int { return c.BK.GetBalance(c.ReadCtx(), a, d).Amount }
		sup := func(d string) sdk.Int { return c.BK.GetSupply(c.ReadCtx(), d).Amount }

		classID := ""
		if creator != nil {
			fund(creator, cf)
			var offer *sdk.Coin
			if cf != nil && cf.Amount.IsPositive() {
				x := *cf
				offer = &x
			}
			// below-fee and unfunded offers must be rejected
			if cf != nil && cf.Amount.GT(sdk.OneInt()) {
				low := sdk.NewCoin(cf.Denom, cf.Amount.SubRaw(1))
				if r := c.Deliver(&basetypes.MsgCreateClass{Admin: creator.String(), Issuers: []string{seller.String()}, CreditTypeAbbrev: abbrev, Fee: &low}); r.OK {
					w.Violation("C18", "accepted-below-fee/CreateClass", "%s: CreateClass offering %s accepted, %s required", when, low, cf)
				}
			}
			b0, s0 := sdk.ZeroInt(), sdk.ZeroInt()
			if cf != nil {
				b0, s0 = bal(creator, cf.Denom), sup(cf.Denom)
			}
			r := c.Deliver(&basetypes.MsgCreateClass{Admin: creator.String(), Issuers: []string{seller.String()}, CreditTypeAbbrev: abbrev, Fee: offer})
			if !r.OK && cf != nil && cf.Amount.IsZero() {
				// a zero fee cannot be offered as nil; try a positive offer too before concluding
				one := sdk.NewCoin(cf.Denom, sdk.OneInt())
				fund(creator, &one)
				r = c.Deliver(&basetypes.MsgCreateClass{Admin: creator.String(), Issuers: []string{seller.String()}, CreditTypeAbbrev: abbrev, Fee: &one})
				b0, s0 = bal(creator, cf.Denom), sup(cf.Denom)
			}
			if !r.OK {
				fail("CreateClass", "class-fee="+feeClass(cf), r)
			} else {
				if resp, ok := r.RespMsg.(*basetypes.MsgCreateClassResponse); ok {
					classID = resp.ClassId
				}
				if cf != nil && cf.Amount.IsPositive() {
					if !b0.Sub(bal(creator, cf.Denom)).Equal(cf.Amount) || !s0.Sub(sup(cf.Denom)).Equal(cf.Amount) {
						w.Violation("C18", "fee-not-exact/CreateClass", "%s: class fee %s: creator debited %s, supply reduced %s", when, cf, b0.Sub(bal(creator, cf.Denom)), s0.Sub(sup(cf.Denom)))
					}
				}
			}
		}
		if classID == "" {
			// fall back to an existing class whose issuer we can use
			for _, cl := range s.Classes {
				for _, ci := range s.ClassIssuers {
					if ci.ClassKey == cl.Key && classID == "" {
						classID, seller = cl.Id, sdk.AccAddress(ci.Issuer)
						abbrev = cl.CreditTypeAbbrev
					}
				}
			}
		}
		if classID == "" {
			return
		}
		for _, a := range w.Accts { // the fallback seller must differ from the buyer and the curator
			if seller.Equals(buyer) && !a.Equals(seller) && !a.Equals(curator) {
				buyer = a
			}
		}
		r := c.Deliver(&basetypes.MsgCreateProject{Admin: seller.String(), ClassId: classID, Jurisdiction: "US"})
		if !r.OK {
			fail("CreateProject", "-", r)
			return
		}
		pid := r.RespMsg.(*basetypes.MsgCreateProjectResponse).ProjectId
		sd, ed := time.Date(2022, 1, 1, 0, 0, 0, 0, time.UTC), time.Date(2023, 1, 1, 0, 0, 0, 0, time.UTC)
		r = c.Deliver(&basetypes.MsgCreateBatch{Issuer: seller.String(), ProjectId: pid, Metadata: "m", StartDate: &sd, EndDate: &ed,
			Issuance: []*basetypes.BatchIssuance{{Recipient: seller.String(), TradableAmount: "1000"}}})
		if !r.OK {
			fail("CreateBatch", "-", r)
			return
		}
		denom := r.RespMsg.(*basetypes.MsgCreateBatchResponse).BatchDenom

		// basket: create with the required fee, put, take
		fund(curator, bf)
		var bfee sdk.Coins
		if bf != nil && bf.Amount.IsPositive() {
			bfee = sdk.Coins{*bf}
		}
		name := fmt.Sprintf("CNR%d", w.StepIdx%100000)
		b0, s0 := sdk.ZeroInt(), sdk.ZeroInt()
		if bf != nil {
			b0, s0 = bal(curator, bf.Denom), sup(bf.Denom)
		}
		r = c.Deliver(&baskettypes.MsgCreate{Curator: curator.String(), Name: name, CreditTypeAbbrev: abbrev, AllowedClasses: []string{classID}, DisableAutoRetire: true, Fee: bfee})
		if !r.OK && bf != nil && bf.Amount.IsZero() {
			one := sdk.NewCoin(bf.Denom, sdk.OneInt())
			fund(curator, &one)
			r = c.Deliver(&baskettypes.MsgCreate{Curator: curator.String(), Name: name, CreditTypeAbbrev: abbrev, AllowedClasses: []string{classID}, DisableAutoRetire: true, Fee: sdk.Coins{one}})
			b0, s0 = bal(curator, bf.Denom), sup(bf.Denom)
		}
		if !r.OK {
			fail("basket.Create", "basket-fee="+feeClass(bf), r)
		} else {
			if bf != nil && bf.Amount.IsPositive() {
				if !b0.Sub(bal(curator, bf.Denom)).Equal(bf.Amount) || !s0.Sub(sup(bf.Denom)).Equal(bf.Amount) {
					w.Violation("C18", "fee-not-exact/basket.Create", "%s: basket fee %s: curator debited %s, supply reduced %s", when, bf, b0.Sub(bal(curator, bf.Denom)), s0.Sub(sup(bf.Denom)))
				}
			}
			bd := r.RespMsg.(*baskettypes.MsgCreateResponse).BasketDenom
			if r = c.Deliver(&baskettypes.MsgPut{Owner: seller.String(), BasketDenom: bd, Credits: []*baskettypes.BasketCredit{{BatchDenom: denom, Amount: "10.5"}}}); !r.OK {
				fail("basket.Put", "-", r)
			} else if r = c.Deliver(&baskettypes.MsgTake{Owner: seller.String(), BasketDenom: bd, Amount: "2500000"}); !r.OK {
				fail("basket.Take", "-", r)
			}
		}

		// marketplace: sell in an allowed denom, buy with funds and an ample max fee
		if len(s.AllowedDenoms) == 0 {
			eng.G.Count("C18/skipped: no allowed denom (sell has no valid denom)", 1)
			return
		}
		ad := s.AllowedDenoms[0].BankDenom
		ask := sdk.NewInt64Coin(ad, 7)
		sigOf := func() string {
			sig := "buyer-rate=" + rateClass(br) + ",seller-rate=" + rateClass(sr)
			switch {
			case rateClass(br) == "zero" || rateClass(sr) == "zero":
				sig = "zero-fee-rate"
			case rateClass(sr) == ">1":
				sig = "seller-rate>1"
			}
			return sig
		}
		// sellBuy lists 100 credits at the given price and buys part of them with funds and an ample max fee
		sellBuy := func(price sdk.Coin, qty, tag string) (uint64, bool) {
			r := c.Deliver(&markettypes.MsgSell{Seller: seller.String(), Orders: []*markettypes.MsgSell_Order{{BatchDenom: denom, Quantity: "100", AskPrice: &price, DisableAutoRetire: true}}})
			if !r.OK {
				fail("marketplace.Sell", tag, r)
				return 0, false
			}
			id := r.RespMsg.(*markettypes.MsgSellResponse).SellOrderIds[0]
			budget := sdk.NewCoin(price.Denom, price.Amount.MulRaw(1000).AddRaw(1_000_000_000)) // 100 credits, fee rates of at most a few hundred percent
			fund(buyer, &budget)
			r = c.Deliver(&markettypes.MsgBuyDirect{Buyer: buyer.String(), Orders: []*markettypes.MsgBuyDirect_Order{{SellOrderId: id, Quantity: qty, BidPrice: &price, DisableAutoRetire: true, MaxFeeAmount: &budget}}})
			if !r.OK {
				sig := sigOf()
				if tag != "-" {
					sig += "," + tag
				}
				fail("marketplace.BuyDirect", sig, r)
				return id, false
			}
			return id, true
		}
		id, ok := sellBuy(ask, "3.5", "-")
		if !ok {
			return
		}
		// the same with a price at or beyond the 64-bit boundaries, in every allowed denom (an 18-decimals
		// asset is priced like this); values rotate with the step so that a run covers all of them
		bigs := []string{"9223372036854775808", "100000000000000000000", "18446744073709551616", "1000000000000000000000000"}
		qtys := []string{"35", "0.000001", "99.999999", "1"}
		for i, d := range s.AllowedDenoms {
			if i >= 3 {
				break
			}
			amt, _ := sdk.NewIntFromString(bigs[(w.StepIdx+i)%len(bigs)])
			if _, ok := sellBuy(sdk.NewCoin(d.BankDenom, amt), qtys[(w.StepIdx/4+i)%len(qtys)], "price>=2^63"); !ok {
				return
			}
		}
		// the stated precondition on the max fee is "covers the buyer fee rounded down to whole
		// units": a max fee of exactly that amount (or none at all when it is zero) must do
		brr, ok1 := ref.Rate(br)
		if _, ok2 := ref.Rate(sr); ok1 && ok2 {
			for _, qty := range []string{"1.5", "0.000001", "7"} {
				q, _ := ref.ParseRat(qty)
				fee := ref.Floor(new(big.Rat).Mul(new(big.Rat).Mul(q, big.NewRat(7, 1)), brr))
				if ref.SigDigits(new(big.Rat).Mul(new(big.Rat).Mul(q, big.NewRat(7, 1)), brr)) > 34 {
					continue // F6 territory
				}
				ord := &markettypes.MsgBuyDirect_Order{SellOrderId: id, Quantity: qty, BidPrice: &ask, DisableAutoRetire: true}
				if fee.Sign() > 0 {
					mf := sdk.NewCoin(ad, sdk.NewIntFromBigInt(fee))
					ord.MaxFeeAmount = &mf
				}
				if r = c.Deliver(&markettypes.MsgBuyDirect{Buyer: buyer.String(), Orders: []*markettypes.MsgBuyDirect_Order{ord}}); !r.OK {
					fail("marketplace.BuyDirect", "max-fee-exactly-floor-of-buyer-fee", r)
					return
				}
			}
		}
	})
}

func (m *C18) Finish(*eng.World) bool { return m.boundaryConfigs > 0 && m.canaryRuns >= 3 }
