// Package mon holds one monitor (oracle) per property.
package mon

import (
	"math/big"

	regenmath "github.com/regen-network/regen-ledger/types/v2/math"

	"verif/ref"
	"verif/snap"
)

type rat = big.Rat

func zero() *rat { return new(big.Rat) }

func add(a, b *rat) *rat { return new(big.Rat).Add(a, b) }
func sub(a, b *rat) *rat { return new(big.Rat).Sub(a, b) }

// batchTotals sums, per batch key, account balances and basket holdings.
type batchTotals struct {
	Tradable, Escrowed, Retired, Basket map[uint64]*rat
}

func totals(s *snap.Snap) batchTotals {
	bt := batchTotals{map[uint64]*rat{}, map[uint64]*rat{}, map[uint64]*rat{}, map[uint64]*rat{}}
	get := func(m map[uint64]*rat, k uint64) *rat {
		if m[k] == nil {
			m[k] = zero()
		}
		return m[k]
	}
	for _, b := range s.Balances {
		get(bt.Tradable, b.BatchKey).Add(get(bt.Tradable, b.BatchKey), ref.MustRat(b.TradableAmount))
		get(bt.Escrowed, b.BatchKey).Add(get(bt.Escrowed, b.BatchKey), ref.MustRat(b.EscrowedAmount))
		get(bt.Retired, b.BatchKey).Add(get(bt.Retired, b.BatchKey), ref.MustRat(b.RetiredAmount))
	}
	for _, bb := range s.BasketBalances {
		if b := s.BatchByDenom(bb.BatchDenom); b != nil {
			get(bt.Basket, b.Key).Add(get(bt.Basket, b.Key), ref.MustRat(bb.Balance))
		}
	}
	return bt
}

func r(m map[uint64]*rat, k uint64) *rat {
	if m[k] == nil {
		return zero()
	}
	return m[k]
}

// repoAcceptsFixed asks the code's own fixed-precision parser (the one later
// handlers re-parse stored amounts with).
func repoAcceptsFixed(s string, prec uint32) bool {
	_, err := regenmath.NewNonNegativeFixedDecFromString(s, prec)
	return err == nil
}
