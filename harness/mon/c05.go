package mon

import (
	"math/big"

	sdk "github.com/cosmos/cosmos-sdk/types"

	baskettypes "github.com/regen-network/regen-ledger/x/ecocredit/v3/basket/types/v1"

	"verif/eng"
	"verif/ref"
	"verif/snap"
)

// C05 — basket tokens are fully backed by the credits in the basket.
type C05 struct {
	eng.BaseMonitor
	sharedBatch, multiBatchTake, tokenTransfer bool
}

func (*C05) Property() string { return "C05" }

func (m *C05) Init(w *eng.World) { m.check(w, w.S, "genesis") }

func basketPrecision(s *snap.Snap, abbrev string) int {
	if ct := s.CreditType(abbrev); ct != nil {
		return int(ct.Precision)
	}
	return 6
}

func (m *C05) check(w *eng.World, s *snap.Snap, where string) {
	sums := map[uint64]*rat{}
	holders := map[string]int{}
	for _, bb := range s.BasketBalances {
		if sums[bb.BasketId] == nil {
			sums[bb.BasketId] = zero()
		}
		sums[bb.BasketId].Add(sums[bb.BasketId], ref.MustRat(bb.Balance))
		holders[bb.BatchDenom]++
		if holders[bb.BatchDenom] >= 2 {
			m.sharedBatch = true
		}
	}
	exactHolds := true
	for _, b := range s.Baskets {
		tot := sums[b.Id]
		if tot == nil {
			tot = zero()
		}
		want := new(big.Rat).Mul(tot, new(big.Rat).SetInt(ref.Pow10(basketPrecision(s, b.CreditTypeAbbrev))))
		got := new(big.Rat).SetInt(s.SupplyOf(b.BasketDenom))
		if want.Cmp(got) != 0 {
			exactHolds = false
			w.Violation("C05", "token-supply-differs-from-backing", "%s: basket %s token supply %s but credits held %s x 10^precision = %s", where, b.BasketDenom, got.Num(), ref.RatString(tot), ref.RatString(want))
		}
	}
	// the same invariants inside a transaction with little gas left (x/crisis MsgVerifyInvariant): running out of
	// gas aborts the transaction, it must never turn into the verdict "broken"
	if w.StepIdx%5 == 0 {
		brokenAnyway := false
		for _, ir := range w.C.RunInvariants() {
			if ir.Route == "basket-supply" && ir.Broken {
				brokenAnyway = true // judged below, with unlimited gas
			}
		}
		for _, lim := range []uint64{3000, 20000, 90000} {
			if brokenAnyway {
				break
			}
			for _, ir := range w.C.RunInvariantsGas(lim) {
				if ir.Route == "basket-supply" && ir.Broken {
					w.Violation("C05", "registered-invariant-broken-under-gas-limit", "%s: with %d gas the registered invariant %s/%s reports: %s (panic=%v)", where, lim, ir.Module, ir.Route, ir.Msg, ir.Panic)
				}
			}
		}
	}
	for _, ir := range w.C.RunInvariants() {
		if ir.Route == "basket-supply" && ir.Broken {
			key := "registered-invariant-broken"
			if exactHolds {
				// the exact relation holds, the on-chain invariant still complains:
				// does some basket total need more than 34 significant digits?
				for _, b := range s.Baskets {
					if tot := sums[b.Id]; tot != nil {
						tok := new(big.Rat).Mul(tot, new(big.Rat).SetInt(ref.Pow10(basketPrecision(s, b.CreditTypeAbbrev))))
						if d := ref.SigDigits(tok); d > 34 {
							key = "registered-invariant-false-alarm/>34-digits"
						}
						// a legacy basket whose deprecated exponent field differs from the precision: the invariant
						// multiplies by the field, every handler by the precision
						if int(b.Exponent) != basketPrecision(s, b.CreditTypeAbbrev) && tot.Sign() != 0 { //nolint:staticcheck
							key = "registered-invariant-false-alarm/legacy-exponent"
						}
					}
				}
			}
			w.Violation("C05", key, "%s: registered invariant %s/%s reports: %s (panic=%v); exact relation holds=%v", where, ir.Module, ir.Route, ir.Msg, ir.Panic, exactHolds)
		}
	}
}

func (m *C05) AfterMsg(w *eng.World, st *eng.MsgStep) {
	if !st.Res.OK {
		return
	}
	switch msg := st.Msg.(type) {
	case *baskettypes.MsgPut:
		b := st.Pre.BasketByDenom(msg.BasketDenom)
		if b == nil {
			w.Violation("C05", "put-unknown-basket", "accepted Put into unknown basket %s", msg.BasketDenom)
			break
		}
		tot := zero()
		for _, c := range msg.Credits {
			tot.Add(tot, ref.MustRat(c.Amount))
		}
		want := new(big.Rat).Mul(tot, new(big.Rat).SetInt(ref.Pow10(basketPrecision(st.Pre, b.CreditTypeAbbrev))))
		minted := new(big.Int).Sub(st.Post.SupplyOf(b.BasketDenom), st.Pre.SupplyOf(b.BasketDenom))
		owner, _ := sdk.AccAddressFromBech32(msg.Owner)
		recv := new(big.Int).Sub(st.Post.BankOf(owner.String(), b.BasketDenom), st.Pre.BankOf(owner.String(), b.BasketDenom))
		if !want.IsInt() || want.Num().Cmp(minted) != 0 {
			w.Violation("C05", "put-minted-wrong", "Put of %s credits minted %s tokens, want %s", ref.RatString(tot), minted, ref.RatString(want))
		}
		if recv.Cmp(minted) != 0 {
			w.Violation("C05", "put-tokens-not-to-depositor", "Put minted %s tokens but the depositor received %s", minted, recv)
		}
		if resp, ok := st.Res.RespMsg.(*baskettypes.MsgPutResponse); ok && resp.AmountReceived != minted.String() {
			w.Violation("C05", "put-response-wrong", "Put response says %s, minted %s", resp.AmountReceived, minted)
		}
	case *baskettypes.MsgTake:
		b := st.Pre.BasketByDenom(msg.BasketDenom)
		if b == nil {
			w.Violation("C05", "take-unknown-basket", "accepted Take from unknown basket %s", msg.BasketDenom)
			break
		}
		// the amount is the message string read as an integer; a leading "0", "0x", "0b" is read
		// by the chain's integer parser as a base prefix - whichever reading the chain uses, the
		// tokens burnt, the owner's debit and the credits released must all be that one amount
		burnt := new(big.Int).Sub(st.Pre.SupplyOf(b.BasketDenom), st.Post.SupplyOf(b.BasketDenom))
		dec, okDec := new(big.Int).SetString(msg.Amount, 10)
		b0, okB0 := new(big.Int).SetString(msg.Amount, 0)
		if !(okDec && dec.Cmp(burnt) == 0) && !(okB0 && b0.Cmp(burnt) == 0) {
			w.Violation("C05", "take-burn-wrong", "Take of %q tokens burnt %s", msg.Amount, burnt)
			break
		}
		amt := burnt
		owner, _ := sdk.AccAddressFromBech32(msg.Owner)
		paid := new(big.Int).Sub(st.Pre.BankOf(owner.String(), b.BasketDenom), st.Post.BankOf(owner.String(), b.BasketDenom))
		if paid.Cmp(amt) != 0 {
			w.Violation("C05", "take-burn-wrong", "Take of %q tokens burnt %s and debited the owner %s", msg.Amount, burnt, paid)
		}
		// credits released = decrease of the basket's holdings
		pre, post := zero(), zero()
		for _, bb := range st.Pre.BasketBalances {
			if bb.BasketId == b.Id {
				pre.Add(pre, ref.MustRat(bb.Balance))
			}
		}
		for _, bb := range st.Post.BasketBalances {
			if bb.BasketId == b.Id {
				post.Add(post, ref.MustRat(bb.Balance))
			}
		}
		want := new(big.Rat).SetFrac(amt, ref.Pow10(basketPrecision(st.Pre, b.CreditTypeAbbrev)))
		if sub(pre, post).Cmp(want) != 0 {
			w.Violation("C05", "take-released-wrong", "Take of %s tokens released %s credits from the basket, want %s", amt, ref.RatString(sub(pre, post)), ref.RatString(want))
		}
		if resp, ok := st.Res.RespMsg.(*baskettypes.MsgTakeResponse); ok {
			s := zero()
			for _, c := range resp.Credits {
				s.Add(s, ref.MustRat(c.Amount))
			}
			if s.Cmp(want) != 0 {
				w.Violation("C05", "take-response-wrong", "Take response lists %s credits, want %s", ref.RatString(s), ref.RatString(want))
			}
			if len(resp.Credits) >= 2 {
				m.multiBatchTake = true
			}
		}
	}
	if st.Kind == "bankSend" && w.Flags["basket-token-transfer"] {
		m.tokenTransfer = true
	}
	m.check(w, st.Post, "msg "+st.Kind)
}

func (m *C05) AfterBlock(w *eng.World, st *eng.BlockStep) { m.check(w, st.Post, "block") }

func (m *C05) Finish(*eng.World) bool {
	n := 0
	for _, b := range []bool{m.sharedBatch, m.multiBatchTake, m.tokenTransfer} {
		if b {
			n++
		}
	}
	return n >= 2
}
