package mon

import (
	"fmt"

	"verif/eng"
	"verif/ref"
	"verif/snap"
)

// C01 — credit conservation.
type C01 struct {
	eng.BaseMonitor
	sawBasketAndEscrow bool
}

func (*C01) Property() string { return "C01" }

func (m *C01) Init(w *eng.World) { m.check(w, w.S, "genesis") }

func (m *C01) AfterMsg(w *eng.World, st *eng.MsgStep) {
	if st.Res.OK {
		m.check(w, st.Post, "msg "+st.Kind)
	}
}

func (m *C01) AfterBlock(w *eng.World, st *eng.BlockStep) { m.check(w, st.Post, "block") }

func (m *C01) check(w *eng.World, s *snap.Snap, where string) {
	bt := totals(s)
	for _, b := range s.Batches {
		prec := s.PrecisionOfBatch(b)
		sup := s.SupplyByKey(b.Key)
		st, sr, sc := zero(), zero(), zero()
		if sup != nil {
			st, sr, sc = ref.MustRat(sup.TradableAmount), ref.MustRat(sup.RetiredAmount), ref.MustRat(sup.CancelledAmount)
			for name, v := range map[string]string{"supply.tradable": sup.TradableAmount, "supply.retired": sup.RetiredAmount, "supply.cancelled": sup.CancelledAmount} {
				m.amountOK(w, where, b.Denom+" "+name, v, prec)
			}
		}
		_ = sc
		held := add(add(r(bt.Tradable, b.Key), r(bt.Escrowed, b.Key)), r(bt.Basket, b.Key))
		if st.Cmp(held) != 0 {
			w.Violation("C01", "tradable-supply-mismatch", "%s: batch %s tradable supply %s != accounts tradable %s + escrowed %s + baskets %s",
				where, b.Denom, ref.RatString(st), ref.RatString(r(bt.Tradable, b.Key)), ref.RatString(r(bt.Escrowed, b.Key)), ref.RatString(r(bt.Basket, b.Key)))
		}
		if sr.Cmp(r(bt.Retired, b.Key)) != 0 {
			w.Violation("C01", "retired-supply-mismatch", "%s: batch %s retired supply %s != sum of retired balances %s",
				where, b.Denom, ref.RatString(sr), ref.RatString(r(bt.Retired, b.Key)))
		}
		if r(bt.Basket, b.Key).Sign() > 0 && r(bt.Escrowed, b.Key).Sign() > 0 {
			m.sawBasketAndEscrow = true
		}
	}
	for _, bal := range s.Balances {
		b := s.BatchByKey(bal.BatchKey)
		if b == nil {
			continue // dangling reference is C14's business
		}
		prec := s.PrecisionOfBatch(b)
		who := fmt.Sprintf("%s balance of %x", b.Denom, bal.Address)
		m.amountOK(w, where, who+" tradable", bal.TradableAmount, prec)
		m.amountOK(w, where, who+" retired", bal.RetiredAmount, prec)
		m.amountOK(w, where, who+" escrowed", bal.EscrowedAmount, prec)
	}
	for _, bb := range s.BasketBalances {
		b := s.BatchByDenom(bb.BatchDenom)
		if b == nil {
			continue
		}
		m.amountOK(w, where, fmt.Sprintf("basket %d balance of %s", bb.BasketId, bb.BatchDenom), bb.Balance, s.PrecisionOfBatch(b))
	}
	for _, o := range s.SellOrders {
		b := s.BatchByKey(o.BatchKey)
		if b == nil {
			continue
		}
		m.amountOK(w, where, fmt.Sprintf("sell order %d quantity", o.Id), o.Quantity, s.PrecisionOfBatch(b))
	}
	// the same invariants inside a transaction with little gas left (x/crisis MsgVerifyInvariant): running out of
	// gas aborts the transaction, it must never turn into the verdict "broken"
	if w.StepIdx%5 == 0 {
		brokenAnyway := false
		for _, ir := range w.C.RunInvariants() {
			if ir.Route == "batch-supply" && ir.Broken {
				brokenAnyway = true // judged below, with unlimited gas
			}
		}
		for _, lim := range []uint64{3000, 20000, 90000} {
			if brokenAnyway {
				break
			}
			for _, ir := range w.C.RunInvariantsGas(lim) {
				if ir.Route == "batch-supply" && ir.Broken {
					w.Violation("C01", "registered-invariant-broken-under-gas-limit", "%s: with %d gas the registered invariant %s/%s reports: %s (panic=%v)", where, lim, ir.Module, ir.Route, ir.Msg, ir.Panic)
				}
			}
		}
	}
	for _, ir := range w.C.RunInvariants() {
		if ir.Route == "batch-supply" && ir.Broken {
			w.Violation("C01", "registered-invariant-broken", "%s: registered invariant %s/%s reports: %s (panic=%v)", where, ir.Module, ir.Route, ir.Msg, ir.Panic)
		}
	}
}

func (m *C01) amountOK(w *eng.World, where, what, v string, prec uint32) {
	x, ok := ref.ParseRat(v)
	if v == "" {
		x, ok = zero(), true
	}
	if !ok {
		w.Violation("C01", "amount-unparsable", "%s: %s = %q is not a decimal", where, what, v)
		return
	}
	if x.Sign() < 0 {
		w.Violation("C01", "amount-negative", "%s: %s = %q is negative", where, what, v)
	}
	if !ref.WithinPrecision(x, prec) {
		w.Violation("C01", "amount-precision", "%s: %s = %q has more than %d decimal places", where, what, v, prec)
	}
	if v != "" && !repoAcceptsFixed(v, prec) {
		w.Violation("C01", "amount-not-reparsable", "%s: %s = %q is rejected by the chain's own fixed-precision parser (precision %d)", where, what, v, prec)
	}
}

var c01Families = map[string][]string{
	"issue":  {"createBatch", "mint", "bridgeReceive"},
	"move":   {"send", "retire", "cancel", "bridge"},
	"basket": {"put", "take"},
	"market": {"sell", "updSell", "cancelSell", "buy"},
}

func (m *C01) Finish(w *eng.World) bool {
	fam := 0
	for _, ks := range c01Families {
		for _, k := range ks {
			if w.Accepted[k] > 0 {
				fam++
				break
			}
		}
	}
	return fam >= 3 && m.sawBasketAndEscrow
}
