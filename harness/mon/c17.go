package mon

import (
	"bytes"
	"fmt"
	"reflect"
	"sort"
	"strings"

	sdk "github.com/cosmos/cosmos-sdk/types"
	"github.com/cosmos/cosmos-sdk/types/query"
	gogoproto "github.com/cosmos/gogoproto/proto"
	gogotypes "github.com/cosmos/gogoproto/types"
	"google.golang.org/protobuf/types/known/timestamppb"

	"github.com/regen-network/regen-ledger/x/data/v3"
	basetypes "github.com/regen-network/regen-ledger/x/ecocredit/v3/base/types/v1"
	baskettypes "github.com/regen-network/regen-ledger/x/ecocredit/v3/basket/types/v1"
	markettypes "github.com/regen-network/regen-ledger/x/ecocredit/v3/marketplace/types/v1"

	"verif/eng"
	"verif/snap"
)

// C17 — queries return exactly the matching state; paging neither drops nor repeats.
type C17 struct {
	eng.BaseMonitor
	nt bool
}

func (*C17) Property() string { return "C17" }

type listSpec struct {
	name   string
	path   string
	args   func(s *snap.Snap) []string // candidate filter arguments present in state ("" for unfiltered)
	absent []string                    // arguments absent from state / prefix-of-present are derived too
	req    func(arg string) gogoproto.Message
	resp   func() gogoproto.Message
	field  string                                          // list field of the response
	want   func(s *snap.Snap, arg string) ([]string, bool) // brute force; ok=false: the query is expected to error
}

func ts(t *timestamppb.Timestamp) *gogotypes.Timestamp {
	if t == nil {
		return nil
	}
	return &gogotypes.Timestamp{Seconds: t.Seconds, Nanos: t.Nanos}
}

func bech(b []byte) string { return sdk.AccAddress(b).String() }

func classInfo(s *snap.Snap, key uint64) string {
	c := s.ClassByKey(key)
	return (&basetypes.ClassInfo{Id: c.Id, Admin: bech(c.Admin), Metadata: c.Metadata, CreditTypeAbbrev: c.CreditTypeAbbrev}).String()
}

func projectInfo(s *snap.Snap, key uint64) string {
	p := s.ProjectByKey(key)
	cid := ""
	if c := s.ClassByKey(p.ClassKey); c != nil {
		cid = c.Id
	}
	return (&basetypes.ProjectInfo{Id: p.Id, Admin: bech(p.Admin), ClassId: cid, Jurisdiction: p.Jurisdiction, Metadata: p.Metadata, ReferenceId: p.ReferenceId}).String()
}

func batchInfo(s *snap.Snap, key uint64) string {
	b := s.BatchByKey(key)
	pid := ""
	if p := s.ProjectByKey(b.ProjectKey); p != nil {
		pid = p.Id
	}
	return (&basetypes.BatchInfo{Issuer: bech(b.Issuer), ProjectId: pid, Denom: b.Denom, Metadata: b.Metadata, StartDate: ts(b.StartDate), EndDate: ts(b.EndDate), IssuanceDate: ts(b.IssuanceDate), Open: b.Open}).String()
}

func orderInfo(s *snap.Snap, id uint64) string {
	o := s.OrderByID(id)
	den, ask := "", ""
	if b := s.BatchByKey(o.BatchKey); b != nil {
		den = b.Denom
	}
	if m := s.MarketByID(o.MarketId); m != nil {
		ask = m.BankDenom
	}
	return (&markettypes.SellOrderInfo{Id: o.Id, Seller: bech(o.Seller), BatchDenom: den, Quantity: o.Quantity, AskDenom: ask, AskAmount: o.AskAmount, DisableAutoRetire: o.DisableAutoRetire, Expiration: ts(o.Expiration)}).String()
}

func uniqStrings(xs []string) []string {
	sort.Strings(xs)
	var out []string
	for i, x := range xs {
		if i == 0 || xs[i-1] != x {
			out = append(out, x)
		}
	}
	return out
}

func addrArgs(s *snap.Snap, get func(yield func([]byte))) []string {
	var out []string
	get(func(b []byte) { out = append(out, bech(b)) })
	return uniqStrings(out)
}

func listSpecs() []listSpec {
	all := func(*snap.Snap) []string { return []string{""} }
	classIDs := func(s *snap.Snap) []string {
		var o []string
		for _, c := range s.Classes {
			o = append(o, c.Id)
		}
		return o
	}
	projectIDs := func(s *snap.Snap) []string {
		var o []string
		for _, p := range s.Projects {
			o = append(o, p.Id)
		}
		return o
	}
	batchDenoms := func(s *snap.Snap) []string {
		var o []string
		for _, b := range s.Batches {
			o = append(o, b.Denom)
		}
		return o
	}
	return []listSpec{
		{name: "Classes", path: "/regen.ecocredit.v1.Query/Classes", args: all,
			req: func(string) gogoproto.Message { return &basetypes.QueryClassesRequest{} }, resp: func() gogoproto.Message { return &basetypes.QueryClassesResponse{} }, field: "Classes",
			want: func(s *snap.Snap, _ string) ([]string, bool) {
				var o []string
				for _, c := range s.Classes {
					o = append(o, classInfo(s, c.Key))
				}
				return o, true
			}},
		{name: "ClassesByAdmin", path: "/regen.ecocredit.v1.Query/ClassesByAdmin",
			args: func(s *snap.Snap) []string {
				return addrArgs(s, func(y func([]byte)) {
					for _, c := range s.Classes {
						y(c.Admin)
					}
				})
			},
			req: func(a string) gogoproto.Message { return &basetypes.QueryClassesByAdminRequest{Admin: a} }, resp: func() gogoproto.Message { return &basetypes.QueryClassesByAdminResponse{} }, field: "Classes",
			want: func(s *snap.Snap, a string) ([]string, bool) {
				var o []string
				for _, c := range s.Classes {
					if bech(c.Admin) == a {
						o = append(o, classInfo(s, c.Key))
					}
				}
				return o, true
			}},
		{name: "ClassIssuers", path: "/regen.ecocredit.v1.Query/ClassIssuers", args: classIDs,
			req: func(a string) gogoproto.Message { return &basetypes.QueryClassIssuersRequest{ClassId: a} }, resp: func() gogoproto.Message { return &basetypes.QueryClassIssuersResponse{} }, field: "Issuers",
			want: func(s *snap.Snap, a string) ([]string, bool) {
				c := s.ClassByID(a)
				if c == nil {
					return nil, false
				}
				var o []string
				for _, ci := range s.ClassIssuers {
					if ci.ClassKey == c.Key {
						o = append(o, bech(ci.Issuer))
					}
				}
				return o, true
			}},
		{name: "Projects", path: "/regen.ecocredit.v1.Query/Projects", args: all,
			req: func(string) gogoproto.Message { return &basetypes.QueryProjectsRequest{} }, resp: func() gogoproto.Message { return &basetypes.QueryProjectsResponse{} }, field: "Projects",
			want: func(s *snap.Snap, _ string) ([]string, bool) {
				var o []string
				for _, p := range s.Projects {
					o = append(o, projectInfo(s, p.Key))
				}
				return o, true
			}},
		{name: "ProjectsByClass", path: "/regen.ecocredit.v1.Query/ProjectsByClass", args: classIDs,
			req: func(a string) gogoproto.Message { return &basetypes.QueryProjectsByClassRequest{ClassId: a} }, resp: func() gogoproto.Message { return &basetypes.QueryProjectsByClassResponse{} }, field: "Projects",
			want: func(s *snap.Snap, a string) ([]string, bool) {
				c := s.ClassByID(a)
				if c == nil {
					return nil, false
				}
				var o []string
				for _, p := range s.Projects {
					if p.ClassKey == c.Key {
						o = append(o, projectInfo(s, p.Key))
					}
				}
				return o, true
			}},
		{name: "ProjectsByReferenceId", path: "/regen.ecocredit.v1.Query/ProjectsByReferenceId",
			args: func(s *snap.Snap) []string {
				var o []string
				for _, p := range s.Projects {
					if p.ReferenceId != "" {
						o = append(o, p.ReferenceId)
					}
				}
				return uniqStrings(o)
			},
			req: func(a string) gogoproto.Message { return &basetypes.QueryProjectsByReferenceIdRequest{ReferenceId: a} }, resp: func() gogoproto.Message { return &basetypes.QueryProjectsByReferenceIdResponse{} }, field: "Projects",
			want: func(s *snap.Snap, a string) ([]string, bool) {
				if a == "" {
					return nil, false
				}
				var o []string
				for _, p := range s.Projects {
					if p.ReferenceId == a {
						o = append(o, projectInfo(s, p.Key))
					}
				}
				return o, true
			}},
		{name: "ProjectsByAdmin", path: "/regen.ecocredit.v1.Query/ProjectsByAdmin",
			args: func(s *snap.Snap) []string {
				return addrArgs(s, func(y func([]byte)) {
					for _, p := range s.Projects {
						y(p.Admin)
					}
				})
			},
			req: func(a string) gogoproto.Message { return &basetypes.QueryProjectsByAdminRequest{Admin: a} }, resp: func() gogoproto.Message { return &basetypes.QueryProjectsByAdminResponse{} }, field: "Projects",
			want: func(s *snap.Snap, a string) ([]string, bool) {
				var o []string
				for _, p := range s.Projects {
					if bech(p.Admin) == a {
						o = append(o, projectInfo(s, p.Key))
					}
				}
				return o, true
			}},
		{name: "Batches", path: "/regen.ecocredit.v1.Query/Batches", args: all,
			req: func(string) gogoproto.Message { return &basetypes.QueryBatchesRequest{} }, resp: func() gogoproto.Message { return &basetypes.QueryBatchesResponse{} }, field: "Batches",
			want: func(s *snap.Snap, _ string) ([]string, bool) {
				var o []string
				for _, b := range s.Batches {
					o = append(o, batchInfo(s, b.Key))
				}
				return o, true
			}},
		{name: "BatchesByIssuer", path: "/regen.ecocredit.v1.Query/BatchesByIssuer",
			args: func(s *snap.Snap) []string {
				return addrArgs(s, func(y func([]byte)) {
					for _, b := range s.Batches {
						y(b.Issuer)
					}
				})
			},
			req: func(a string) gogoproto.Message { return &basetypes.QueryBatchesByIssuerRequest{Issuer: a} }, resp: func() gogoproto.Message { return &basetypes.QueryBatchesByIssuerResponse{} }, field: "Batches",
			want: func(s *snap.Snap, a string) ([]string, bool) {
				var o []string
				for _, b := range s.Batches {
					if bech(b.Issuer) == a {
						o = append(o, batchInfo(s, b.Key))
					}
				}
				return o, true
			}},
		{name: "BatchesByClass", path: "/regen.ecocredit.v1.Query/BatchesByClass", args: classIDs,
			req: func(a string) gogoproto.Message { return &basetypes.QueryBatchesByClassRequest{ClassId: a} }, resp: func() gogoproto.Message { return &basetypes.QueryBatchesByClassResponse{} }, field: "Batches",
			want: func(s *snap.Snap, a string) ([]string, bool) {
				c := s.ClassByID(a)
				if c == nil {
					return nil, false
				}
				var o []string
				for _, b := range s.Batches {
					if bc := s.ClassOfBatch(b); bc != nil && bc.Key == c.Key {
						o = append(o, batchInfo(s, b.Key))
					}
				}
				return o, true
			}},
		{name: "BatchesByProject", path: "/regen.ecocredit.v1.Query/BatchesByProject", args: projectIDs,
			req: func(a string) gogoproto.Message { return &basetypes.QueryBatchesByProjectRequest{ProjectId: a} }, resp: func() gogoproto.Message { return &basetypes.QueryBatchesByProjectResponse{} }, field: "Batches",
			want: func(s *snap.Snap, a string) ([]string, bool) {
				p := s.ProjectByID(a)
				if p == nil {
					return nil, false
				}
				var o []string
				for _, b := range s.Batches {
					if b.ProjectKey == p.Key {
						o = append(o, batchInfo(s, b.Key))
					}
				}
				return o, true
			}},
		{name: "Balances", path: "/regen.ecocredit.v1.Query/Balances",
			args: func(s *snap.Snap) []string {
				return addrArgs(s, func(y func([]byte)) {
					for _, b := range s.Balances {
						y(b.Address)
					}
				})
			},
			req: func(a string) gogoproto.Message { return &basetypes.QueryBalancesRequest{Address: a} }, resp: func() gogoproto.Message { return &basetypes.QueryBalancesResponse{} }, field: "Balances",
			want: func(s *snap.Snap, a string) ([]string, bool) {
				var o []string
				for _, b := range s.Balances {
					if bech(b.Address) == a {
						o = append(o, balanceInfo(s, b.Address, b.BatchKey))
					}
				}
				return o, true
			}},
		{name: "BalancesByBatch", path: "/regen.ecocredit.v1.Query/BalancesByBatch", args: batchDenoms,
			req: func(a string) gogoproto.Message { return &basetypes.QueryBalancesByBatchRequest{BatchDenom: a} }, resp: func() gogoproto.Message { return &basetypes.QueryBalancesByBatchResponse{} }, field: "Balances",
			want: func(s *snap.Snap, a string) ([]string, bool) {
				bt := s.BatchByDenom(a)
				if bt == nil {
					return nil, false
				}
				var o []string
				for _, b := range s.Balances {
					if b.BatchKey == bt.Key {
						o = append(o, balanceInfo(s, b.Address, b.BatchKey))
					}
				}
				return o, true
			}},
		{name: "AllBalances", path: "/regen.ecocredit.v1.Query/AllBalances", args: all,
			req: func(string) gogoproto.Message { return &basetypes.QueryAllBalancesRequest{} }, resp: func() gogoproto.Message { return &basetypes.QueryAllBalancesResponse{} }, field: "Balances",
			want: func(s *snap.Snap, _ string) ([]string, bool) {
				var o []string
				for _, b := range s.Balances {
					o = append(o, balanceInfo(s, b.Address, b.BatchKey))
				}
				return o, true
			}},
		{name: "AllowedClassCreators", path: "/regen.ecocredit.v1.Query/AllowedClassCreators", args: all,
			req: func(string) gogoproto.Message { return &basetypes.QueryAllowedClassCreatorsRequest{} }, resp: func() gogoproto.Message { return &basetypes.QueryAllowedClassCreatorsResponse{} }, field: "ClassCreators",
			want: func(s *snap.Snap, _ string) ([]string, bool) {
				var o []string
				for _, c := range s.AllowedCreators {
					o = append(o, bech(c.Address))
				}
				return o, true
			}},
		// ---- basket ----
		{name: "Baskets", path: "/regen.ecocredit.basket.v1.Query/Baskets", args: all,
			req: func(string) gogoproto.Message { return &baskettypes.QueryBasketsRequest{} }, resp: func() gogoproto.Message { return &baskettypes.QueryBasketsResponse{} }, field: "BasketsInfo",
			want: func(s *snap.Snap, _ string) ([]string, bool) {
				var o []string
				for _, b := range s.Baskets {
					o = append(o, basketInfo(s, b.Id))
				}
				return o, true
			}},
		{name: "BasketBalances", path: "/regen.ecocredit.basket.v1.Query/BasketBalances",
			args: func(s *snap.Snap) []string {
				var o []string
				for _, b := range s.Baskets {
					o = append(o, b.BasketDenom)
				}
				return o
			},
			req: func(a string) gogoproto.Message { return &baskettypes.QueryBasketBalancesRequest{BasketDenom: a} }, resp: func() gogoproto.Message { return &baskettypes.QueryBasketBalancesResponse{} }, field: "BalancesInfo",
			want: func(s *snap.Snap, a string) ([]string, bool) {
				b := s.BasketByDenom(a)
				if b == nil {
					return nil, false
				}
				var o []string
				for _, bb := range s.BasketBalances {
					if bb.BasketId == b.Id {
						o = append(o, (&baskettypes.BasketBalanceInfo{BatchDenom: bb.BatchDenom, Balance: bb.Balance}).String())
					}
				}
				return o, true
			}},
		// ---- marketplace ----
		{name: "SellOrders", path: "/regen.ecocredit.marketplace.v1.Query/SellOrders", args: all,
			req: func(string) gogoproto.Message { return &markettypes.QuerySellOrdersRequest{} }, resp: func() gogoproto.Message { return &markettypes.QuerySellOrdersResponse{} }, field: "SellOrders",
			want: func(s *snap.Snap, _ string) ([]string, bool) {
				var o []string
				for _, x := range s.SellOrders {
					o = append(o, orderInfo(s, x.Id))
				}
				return o, true
			}},
		{name: "SellOrdersByBatch", path: "/regen.ecocredit.marketplace.v1.Query/SellOrdersByBatch", args: batchDenoms,
			req: func(a string) gogoproto.Message { return &markettypes.QuerySellOrdersByBatchRequest{BatchDenom: a} }, resp: func() gogoproto.Message { return &markettypes.QuerySellOrdersByBatchResponse{} }, field: "SellOrders",
			want: func(s *snap.Snap, a string) ([]string, bool) {
				bt := s.BatchByDenom(a)
				if bt == nil {
					return nil, false
				}
				var o []string
				for _, x := range s.SellOrders {
					if x.BatchKey == bt.Key {
						o = append(o, orderInfo(s, x.Id))
					}
				}
				return o, true
			}},
		{name: "SellOrdersBySeller", path: "/regen.ecocredit.marketplace.v1.Query/SellOrdersBySeller",
			args: func(s *snap.Snap) []string {
				return addrArgs(s, func(y func([]byte)) {
					for _, x := range s.SellOrders {
						y(x.Seller)
					}
					for _, b := range s.Balances {
						y(b.Address)
					}
				})
			},
			req: func(a string) gogoproto.Message { return &markettypes.QuerySellOrdersBySellerRequest{Seller: a} }, resp: func() gogoproto.Message { return &markettypes.QuerySellOrdersBySellerResponse{} }, field: "SellOrders",
			want: func(s *snap.Snap, a string) ([]string, bool) {
				var o []string
				for _, x := range s.SellOrders {
					if bech(x.Seller) == a {
						o = append(o, orderInfo(s, x.Id))
					}
				}
				return o, true
			}},
		{name: "AllowedDenoms", path: "/regen.ecocredit.marketplace.v1.Query/AllowedDenoms", args: all,
			req: func(string) gogoproto.Message { return &markettypes.QueryAllowedDenomsRequest{} }, resp: func() gogoproto.Message { return &markettypes.QueryAllowedDenomsResponse{} }, field: "AllowedDenoms",
			want: func(s *snap.Snap, _ string) ([]string, bool) {
				var o []string
				for _, d := range s.AllowedDenoms {
					o = append(o, (&markettypes.AllowedDenom{BankDenom: d.BankDenom, DisplayDenom: d.DisplayDenom, Exponent: d.Exponent}).String())
				}
				return o, true
			}},
		// ---- data ----
		{name: "AttestationsByAttestor", path: "/regen.data.v2.Query/AttestationsByAttestor",
			args: func(s *snap.Snap) []string {
				return addrArgs(s, func(y func([]byte)) {
					for _, a := range s.DataAttestors {
						y(a.Attestor)
					}
				})
			},
			req: func(a string) gogoproto.Message { return &data.QueryAttestationsByAttestorRequest{Attestor: a} }, resp: func() gogoproto.Message { return &data.QueryAttestationsByAttestorResponse{} }, field: "Attestations",
			want: func(s *snap.Snap, a string) ([]string, bool) {
				var o []string
				for _, x := range s.DataAttestors {
					if bech(x.Attestor) == a {
						o = append(o, (&data.AttestationInfo{Iri: iriOf(s, x.Id), Attestor: a, Timestamp: ts(x.Timestamp)}).String())
					}
				}
				return o, true
			}},
		{name: "AttestationsByIRI", path: "/regen.data.v2.Query/AttestationsByIRI", args: iris,
			req: func(a string) gogoproto.Message { return &data.QueryAttestationsByIRIRequest{Iri: a} }, resp: func() gogoproto.Message { return &data.QueryAttestationsByIRIResponse{} }, field: "Attestations",
			want: attestationsByIRI},
		{name: "AttestationsByHash", path: "/regen.data.v2.Query/AttestationsByHash", args: iris,
			req: func(a string) gogoproto.Message {
				ch, _ := data.ParseIRI(a)
				return &data.QueryAttestationsByHashRequest{ContentHash: ch}
			}, resp: func() gogoproto.Message { return &data.QueryAttestationsByHashResponse{} }, field: "Attestations",
			want: attestationsByIRI},
		{name: "ResolversByIRI", path: "/regen.data.v2.Query/ResolversByIRI", args: iris,
			req: func(a string) gogoproto.Message { return &data.QueryResolversByIRIRequest{Iri: a} }, resp: func() gogoproto.Message { return &data.QueryResolversByIRIResponse{} }, field: "Resolvers",
			want: resolversByIRI},
		{name: "ResolversByHash", path: "/regen.data.v2.Query/ResolversByHash", args: iris,
			req: func(a string) gogoproto.Message {
				ch, _ := data.ParseIRI(a)
				return &data.QueryResolversByHashRequest{ContentHash: ch}
			}, resp: func() gogoproto.Message { return &data.QueryResolversByHashResponse{} }, field: "Resolvers",
			want: resolversByIRI},
		{name: "ResolversByURL", path: "/regen.data.v2.Query/ResolversByURL",
			args: func(s *snap.Snap) []string {
				var o []string
				for _, r := range s.Resolvers {
					o = append(o, r.Url)
				}
				return uniqStrings(o)
			},
			req: func(a string) gogoproto.Message { return &data.QueryResolversByURLRequest{Url: a} }, resp: func() gogoproto.Message { return &data.QueryResolversByURLResponse{} }, field: "Resolvers",
			want: func(s *snap.Snap, a string) ([]string, bool) {
				if a == "" {
					return nil, false
				}
				var o []string
				for _, r := range s.Resolvers {
					if r.Url == a {
						o = append(o, resolverInfo(r.Id, r.Url, r.Manager))
					}
				}
				return o, true
			}},
	}
}

func resolverInfo(id uint64, url string, manager []byte) string {
	m := ""
	if len(manager) > 0 {
		m = bech(manager)
	}
	return (&data.ResolverInfo{Id: id, Url: url, Manager: m}).String()
}

func iris(s *snap.Snap) []string {
	var o []string
	for _, d := range s.DataIDs {
		o = append(o, d.Iri)
	}
	return o
}

func iriOf(s *snap.Snap, id []byte) string {
	for _, d := range s.DataIDs {
		if bytes.Equal(d.Id, id) {
			return d.Iri
		}
	}
	return ""
}

func idOfIRI(s *snap.Snap, iri string) []byte {
	for _, d := range s.DataIDs {
		if d.Iri == iri {
			return d.Id
		}
	}
	return nil
}

func attestationsByIRI(s *snap.Snap, a string) ([]string, bool) {
	id := idOfIRI(s, a)
	if id == nil {
		return nil, false
	}
	var o []string
	for _, x := range s.DataAttestors {
		if bytes.Equal(x.Id, id) {
			o = append(o, (&data.AttestationInfo{Iri: a, Attestor: bech(x.Attestor), Timestamp: ts(x.Timestamp)}).String())
		}
	}
	return o, true
}

func resolversByIRI(s *snap.Snap, a string) ([]string, bool) {
	id := idOfIRI(s, a)
	if id == nil {
		return nil, false
	}
	var o []string
	for _, dr := range s.DataResolvers {
		if bytes.Equal(dr.Id, id) {
			for _, r := range s.Resolvers {
				if r.Id == dr.ResolverId {
					o = append(o, resolverInfo(r.Id, r.Url, r.Manager))
				}
			}
		}
	}
	return o, true
}

func balanceInfo(s *snap.Snap, addr []byte, key uint64) string {
	for _, b := range s.Balances {
		if b.BatchKey == key && bytes.Equal(b.Address, addr) {
			den := ""
			if bt := s.BatchByKey(key); bt != nil {
				den = bt.Denom
			}
			return (&basetypes.BatchBalanceInfo{Address: bech(addr), BatchDenom: den, TradableAmount: b.TradableAmount, RetiredAmount: b.RetiredAmount, EscrowedAmount: b.EscrowedAmount}).String()
		}
	}
	return ""
}

func basketInfo(s *snap.Snap, id uint64) string {
	b := s.BasketByID(id)
	var dc *baskettypes.DateCriteria
	if b.DateCriteria != nil {
		dc = &baskettypes.DateCriteria{YearsInThePast: b.DateCriteria.YearsInThePast}
		if b.DateCriteria.MinStartDate != nil {
			dc.MinStartDate = ts(b.DateCriteria.MinStartDate)
		}
		if w := b.DateCriteria.StartDateWindow; w != nil {
			dc.StartDateWindow = &gogotypes.Duration{Seconds: w.Seconds, Nanos: w.Nanos}
		}
	}
	return (&baskettypes.BasketInfo{BasketDenom: b.BasketDenom, Name: b.Name, DisableAutoRetire: b.DisableAutoRetire, CreditTypeAbbrev: b.CreditTypeAbbrev, DateCriteria: dc, Exponent: b.Exponent, Curator: bech(b.Curator)}).String()
}

// page runs one request and returns the rendered elements, next key and total.
func page(w *eng.World, sp listSpec, arg string, pr *query.PageRequest) (elems []string, next []byte, total uint64, err error) {
	req := sp.req(arg)
	if pr != nil {
		reflect.ValueOf(req).Elem().FieldByName("Pagination").Set(reflect.ValueOf(pr))
	}
	resp := sp.resp()
	if err = w.C.Query(sp.path, req, resp); err != nil {
		return nil, nil, 0, err
	}
	rv := reflect.ValueOf(resp).Elem()
	lst := rv.FieldByName(sp.field)
	for i := 0; i < lst.Len(); i++ {
		e := lst.Index(i).Interface()
		if s, ok := e.(string); ok {
			elems = append(elems, s)
		} else {
			elems = append(elems, e.(fmt.Stringer).String())
		}
	}
	if p, ok := rv.FieldByName("Pagination").Interface().(*query.PageResponse); ok && p != nil {
		next, total = p.NextKey, p.Total
	}
	return elems, next, total, nil
}

var specsOnce []listSpec

// QueryStep is the custom step "query": one list query walked by key and by offset.
func (m *C17) QueryStep(w *eng.World) {
	if specsOnce == nil {
		specsOnce = listSpecs()
	}
	sp := specsOnce[w.Intn("q.spec", len(specsOnce))]
	s := w.S
	present := sp.args(s)
	arg := ""
	mode := "present"
	switch x := w.Intn("q.argmode", 10); {
	case len(present) == 0 || x == 9:
		mode = "absent"
		arg = w.PickString("q.absent", []string{"C01", "C99", "C10", "C1", "C10-1", "C10-100", "regen1qqqqqqqqqqqqqqqqqqqqqqqqqqqqqqqqqqqqqqp6rf2e", "eco.uC.none", "C01-001-20200101-20210101-001", "VCS", "https://foo", "regen:113gdjFKcVCt13Za6vN7TtbgMM6LMSjRnu89BMCxeuHdkJ1hWUmy.rdf"})
	case x == 8 && len(present[0]) > 2:
		mode = "prefix"
		p := present[w.Intn("q.pfx", len(present))]
		arg = p[:len(p)-1]
	default:
		arg = present[w.Intn("q.arg", len(present))]
	}
	want, _ := sp.want(s, arg)
	limit := uint64([]int{1, 2, 3, 5, 1000, len(want) + 1, len(want), len(want) - 1}[w.Intn("q.limit", 8)])
	if limit == 0 || limit > 100000 {
		limit = 1
	}
	reverse := w.Intn("q.reverse", 4) == 0
	m.runQuery(w, sp, arg, mode, limit, reverse)
}

// Sweep runs every list query for every argument present in state (replay mode).
func (m *C17) Sweep(w *eng.World) {
	if specsOnce == nil {
		specsOnce = listSpecs()
	}
	for _, sp := range specsOnce {
		for _, arg := range sp.args(w.S) {
			for _, limit := range []uint64{1, 2, 1000} {
				m.runQuery(w, sp, arg, "present", limit, false)
			}
			m.runQuery(w, sp, arg, "present", 2, true)
			if len(arg) > 2 {
				m.runQuery(w, sp, arg[:len(arg)-1], "prefix", 2, false)
			}
		}
	}
}

func (m *C17) runQuery(w *eng.World, sp listSpec, arg, mode string, limit uint64, reverse bool) {
	s := w.S
	present := sp.args(s)
	want, wantOK := sp.want(s, arg)
	eng.G.Count("C17/queries/"+sp.name, 1)

	// walk by key
	var got []string
	var next []byte
	pages := 0
	for {
		pr := &query.PageRequest{Limit: limit, Key: next, Reverse: reverse}
		el, nk, _, err := page(w, sp, arg, pr)
		if err != nil {
			if wantOK && mode == "present" {
				w.Violation("C17", "query-error/"+sp.name, "%s(%q) page %d failed: %v", sp.name, arg, pages, err)
			}
			return
		}
		if uint64(len(el)) > limit {
			w.Violation("C17", "page-larger-than-limit/"+sp.name, "%s(%q) returned %d elements for limit %d", sp.name, arg, len(el), limit)
		}
		got = append(got, el...)
		pages++
		next = nk
		if len(next) == 0 {
			break
		}
		if pages > len(want)+5 {
			w.Violation("C17", "paging-does-not-terminate/"+sp.name, "%s(%q) limit %d still has a next key after %d pages for %d matching elements", sp.name, arg, limit, pages, len(want))
			return
		}
	}
	if !wantOK {
		if len(got) > 0 {
			w.Violation("C17", "elements-for-absent-filter/"+sp.name, "%s(%q): filter matches nothing in state but the query returned %v", sp.name, arg, got)
		}
		return
	}
	m.compare(w, sp, arg, "key walk limit "+fmt.Sprint(limit), got, want)

	// walk by offset with count_total
	var got2 []string
	for off := uint64(0); ; off += limit {
		el, _, total, err := page(w, sp, arg, &query.PageRequest{Limit: limit, Offset: off, CountTotal: true, Reverse: reverse})
		if err != nil {
			w.Violation("C17", "query-error/"+sp.name, "%s(%q) offset %d failed: %v", sp.name, arg, off, err)
			return
		}
		if total != uint64(len(want)) {
			w.Violation("C17", "wrong-total/"+sp.name, "%s(%q) offset %d limit %d reports total %d, %d elements match", sp.name, arg, off, limit, total, len(want))
		}
		got2 = append(got2, el...)
		// a client walking by offset stops at the reported total (requests at or
		// beyond the end are not part of a walk)
		if len(el) == 0 || off+limit >= total {
			break
		}
	}
	m.compare(w, sp, arg, "offset walk limit "+fmt.Sprint(limit), got2, want)
	if strings.Join(got, "\x00") != strings.Join(got2, "\x00") {
		w.Violation("C17", "order-not-stable/"+sp.name, "%s(%q): key walk and offset walk disagree on order:\n%v\n%v", sp.name, arg, got, got2)
	}
	// no page request at all: the first 100 elements (the default page size), with a next key iff there are more
	if !reverse {
		el, nk, _, err := page(w, sp, arg, nil)
		wantN := len(got)
		if wantN > 100 {
			wantN = 100
			w.Flags["list-longer-than-default-page"] = true
		}
		if err != nil {
			w.Violation("C17", "query-error/"+sp.name, "%s(%q) without page request failed: %v", sp.name, arg, err)
			return
		}
		if strings.Join(el, "\x00") != strings.Join(got[:wantN], "\x00") || (len(nk) > 0) != (len(got) > 100) {
			w.Violation("C17", "default-page-wrong/"+sp.name, "%s(%q) without page request returned %d elements (next key %v); the walk has %d", sp.name, arg, len(el), len(nk) > 0, len(got))
		}
	}
	// page size left at its default (limit 0) together with an offset or a continuation key
	if len(got) >= 2 {
		k := uint64(1)
		if len(got) > 3 {
			k = 2
		}
		el, _, total, err := page(w, sp, arg, &query.PageRequest{Offset: k, CountTotal: true, Reverse: reverse})
		if err != nil {
			w.Violation("C17", "query-error/"+sp.name, "%s(%q) offset %d with default limit failed: %v", sp.name, arg, k, err)
			return
		}
		if strings.Join(el, "\x00") != strings.Join(got[k:], "\x00") || total != uint64(len(want)) {
			w.Violation("C17", "default-limit-offset-wrong/"+sp.name, "%s(%q) offset %d with default limit returned %d elements (total %d); the walk has %d elements after the offset (total %d)", sp.name, arg, k, len(el), total, len(got)-int(k), len(want))
		}
		first, nk, _, err := page(w, sp, arg, &query.PageRequest{Limit: 1, Reverse: reverse})
		if err == nil && len(first) == 1 && len(nk) > 0 {
			rest, _, _, err := page(w, sp, arg, &query.PageRequest{Key: nk, Reverse: reverse})
			if err != nil {
				w.Violation("C17", "query-error/"+sp.name, "%s(%q) continuation key with default limit failed: %v", sp.name, arg, err)
				return
			}
			if strings.Join(rest, "\x00") != strings.Join(got[1:], "\x00") {
				w.Violation("C17", "default-limit-key-wrong/"+sp.name, "%s(%q) continuing from the first page's key with default limit returned %d elements, the walk has %d after the first", sp.name, arg, len(rest), len(got)-1)
			}
		}
	}
	if pages >= 2 && len(want) > 0 && mode == "present" {
		// strict non-empty subset while a prefix-colliding neighbour exists
		all, _ := sp.want(s, "")
		_ = all
		for _, other := range present {
			if other != arg && (strings.HasPrefix(other, arg) || strings.HasPrefix(arg, other)) {
				m.nt = true
				w.Flags["prefix-colliding-filter"] = true
			}
		}
		if sp.args(s)[0] != "" && len(present) > 1 {
			w.Flags["multi-page-filtered-walk"] = true
		}
	}
}

func (m *C17) compare(w *eng.World, sp listSpec, arg, how string, got, want []string) {
	g := append([]string(nil), got...)
	x := append([]string(nil), want...)
	sort.Strings(g)
	sort.Strings(x)
	if strings.Join(g, "\x00") == strings.Join(x, "\x00") {
		return
	}
	cnt := map[string]int{}
	for _, e := range g {
		cnt[e]++
	}
	for _, e := range x {
		cnt[e]--
	}
	var extra, missing []string
	for e, c := range cnt {
		if c > 0 {
			extra = append(extra, e)
		} else if c < 0 {
			missing = append(missing, e)
		}
	}
	sort.Strings(extra)
	sort.Strings(missing)
	key := "wrong-result/" + sp.name
	w.Violation("C17", key, "%s(%q) %s: returned %d elements, %d match; extra or repeated: %v; missing: %v", sp.name, arg, how, len(got), len(want), extra, missing)
}

// SingleStep is the custom step "get": single-entity queries equal the snapshot row.
func (m *C17) SingleStep(w *eng.World) {
	s := w.S
	eng.G.Count("C17/single-queries", 1)
	switch w.Intn("g.which", 9) {
	case 0:
		if len(s.Classes) == 0 {
			return
		}
		c := s.Classes[w.Intn("g.class", len(s.Classes))]
		var r basetypes.QueryClassResponse
		if err := w.C.Query("/regen.ecocredit.v1.Query/Class", &basetypes.QueryClassRequest{ClassId: c.Id}, &r); err != nil || r.Class == nil || r.Class.String() != classInfo(s, c.Key) {
			w.Violation("C17", "single/Class", "Class(%s) = %v, %v; state has %s", c.Id, r.Class, err, classInfo(s, c.Key))
		}
	case 1:
		if len(s.Projects) == 0 {
			return
		}
		p := s.Projects[w.Intn("g.project", len(s.Projects))]
		var r basetypes.QueryProjectResponse
		if err := w.C.Query("/regen.ecocredit.v1.Query/Project", &basetypes.QueryProjectRequest{ProjectId: p.Id}, &r); err != nil || r.Project == nil || r.Project.String() != projectInfo(s, p.Key) {
			w.Violation("C17", "single/Project", "Project(%s) = %v, %v; state has %s", p.Id, r.Project, err, projectInfo(s, p.Key))
		}
	case 2:
		if len(s.Batches) == 0 {
			return
		}
		b := s.Batches[w.Intn("g.batch", len(s.Batches))]
		var r basetypes.QueryBatchResponse
		if err := w.C.Query("/regen.ecocredit.v1.Query/Batch", &basetypes.QueryBatchRequest{BatchDenom: b.Denom}, &r); err != nil || r.Batch == nil || r.Batch.String() != batchInfo(s, b.Key) {
			w.Violation("C17", "single/Batch", "Batch(%s) = %v, %v; state has %s", b.Denom, r.Batch, err, batchInfo(s, b.Key))
		}
		var sr basetypes.QuerySupplyResponse
		sup := s.SupplyByKey(b.Key)
		if err := w.C.Query("/regen.ecocredit.v1.Query/Supply", &basetypes.QuerySupplyRequest{BatchDenom: b.Denom}, &sr); err != nil || sup == nil || sr.TradableAmount != sup.TradableAmount || sr.RetiredAmount != sup.RetiredAmount || sr.CancelledAmount != sup.CancelledAmount {
			w.Violation("C17", "single/Supply", "Supply(%s) = %v, %v; state has %v", b.Denom, sr, err, sup)
		}
	case 3:
		if len(s.Balances) == 0 {
			return
		}
		b := s.Balances[w.Intn("g.bal", len(s.Balances))]
		bt := s.BatchByKey(b.BatchKey)
		if bt == nil {
			return
		}
		var r basetypes.QueryBalanceResponse
		if err := w.C.Query("/regen.ecocredit.v1.Query/Balance", &basetypes.QueryBalanceRequest{Address: bech(b.Address), BatchDenom: bt.Denom}, &r); err != nil || r.Balance == nil || r.Balance.String() != balanceInfo(s, b.Address, b.BatchKey) {
			w.Violation("C17", "single/Balance", "Balance(%s,%s) = %v, %v; state has %s", bech(b.Address), bt.Denom, r.Balance, err, balanceInfo(s, b.Address, b.BatchKey))
		}
	case 4:
		if len(s.Baskets) == 0 {
			return
		}
		b := s.Baskets[w.Intn("g.basket", len(s.Baskets))]
		var r baskettypes.QueryBasketResponse
		err := w.C.Query("/regen.ecocredit.basket.v1.Query/Basket", &baskettypes.QueryBasketRequest{BasketDenom: b.BasketDenom}, &r)
		var classes []string
		for _, bc := range s.BasketClasses {
			if bc.BasketId == b.Id {
				classes = append(classes, bc.ClassId)
			}
		}
		got := append([]string(nil), r.Classes...)
		sort.Strings(got)
		sort.Strings(classes)
		if err != nil || r.BasketInfo == nil || r.BasketInfo.String() != basketInfo(s, b.Id) || fmt.Sprint(got) != fmt.Sprint(classes) {
			w.Violation("C17", "single/Basket", "Basket(%s) = %v classes %v, %v; state has %s classes %v", b.BasketDenom, r.BasketInfo, r.Classes, err, basketInfo(s, b.Id), classes)
		}
	case 5:
		if len(s.BasketBalances) == 0 {
			return
		}
		bb := s.BasketBalances[w.Intn("g.bb", len(s.BasketBalances))]
		bk := s.BasketByID(bb.BasketId)
		if bk == nil {
			return
		}
		var r baskettypes.QueryBasketBalanceResponse
		if err := w.C.Query("/regen.ecocredit.basket.v1.Query/BasketBalance", &baskettypes.QueryBasketBalanceRequest{BasketDenom: bk.BasketDenom, BatchDenom: bb.BatchDenom}, &r); err != nil || r.Balance != bb.Balance {
			w.Violation("C17", "single/BasketBalance", "BasketBalance(%s,%s) = %q, %v; state has %q", bk.BasketDenom, bb.BatchDenom, r.Balance, err, bb.Balance)
		}
	case 6:
		if len(s.SellOrders) == 0 {
			return
		}
		o := s.SellOrders[w.Intn("g.order", len(s.SellOrders))]
		var r markettypes.QuerySellOrderResponse
		if err := w.C.Query("/regen.ecocredit.marketplace.v1.Query/SellOrder", &markettypes.QuerySellOrderRequest{SellOrderId: o.Id}, &r); err != nil || r.SellOrder == nil || r.SellOrder.String() != orderInfo(s, o.Id) {
			w.Violation("C17", "single/SellOrder", "SellOrder(%d) = %v, %v; state has %s", o.Id, r.SellOrder, err, orderInfo(s, o.Id))
		}
	case 7:
		if len(s.DataAnchors) == 0 {
			return
		}
		a := s.DataAnchors[w.Intn("g.anchor", len(s.DataAnchors))]
		iri := iriOf(s, a.Id)
		var r data.QueryAnchorByIRIResponse
		if err := w.C.Query("/regen.data.v2.Query/AnchorByIRI", &data.QueryAnchorByIRIRequest{Iri: iri}, &r); err != nil || r.Anchor == nil || r.Anchor.Iri != iri || !r.Anchor.Timestamp.Equal(ts(a.Timestamp)) {
			w.Violation("C17", "single/AnchorByIRI", "AnchorByIRI(%s) = %v, %v; state has timestamp %v", iri, r.Anchor, err, a.Timestamp)
		}
		ch, err := data.ParseIRI(iri)
		if err == nil {
			var r2 data.QueryAnchorByHashResponse
			if err := w.C.Query("/regen.data.v2.Query/AnchorByHash", &data.QueryAnchorByHashRequest{ContentHash: ch}, &r2); err != nil || r2.Anchor == nil || r2.Anchor.Iri != iri || !r2.Anchor.Timestamp.Equal(ts(a.Timestamp)) {
				w.Violation("C17", "single/AnchorByHash", "AnchorByHash(%s) = %v, %v", iri, r2.Anchor, err)
			}
		}
	case 8:
		if len(s.Resolvers) == 0 {
			return
		}
		rs := s.Resolvers[w.Intn("g.resolver", len(s.Resolvers))]
		var r data.QueryResolverResponse
		if err := w.C.Query("/regen.data.v2.Query/Resolver", &data.QueryResolverRequest{Id: rs.Id}, &r); err != nil || r.Resolver == nil || r.Resolver.String() != resolverInfo(rs.Id, rs.Url, rs.Manager) {
			w.Violation("C17", "single/Resolver", "Resolver(%d) = %v, %v; state has %s", rs.Id, r.Resolver, err, resolverInfo(rs.Id, rs.Url, rs.Manager))
		}
	}
}

func (m *C17) Finish(w *eng.World) bool {
	if w.T == nil {
		m.Sweep(w)
	}
	return m.nt
}
