package mon

import (
	"fmt"

	"verif/eng"
	"verif/ref"
	"verif/snap"
)

// C04 — retired balances, retired supply and cancelled supply never decrease.
type C04 struct {
	eng.BaseMonitor
	writers map[string]map[string]bool // row -> kinds that wrote it while retired > 0
}

func (*C04) Property() string { return "C04" }

func (m *C04) Init(*eng.World) { m.writers = map[string]map[string]bool{} }

func (m *C04) AfterMsg(w *eng.World, st *eng.MsgStep) {
	if st.Res.OK {
		m.compare(w, st.Pre, st.Post, st.Kind)
	}
}

func (m *C04) AfterBlock(w *eng.World, st *eng.BlockStep) {
	k := "block"
	if st.Restarted {
		k = "restart"
	}
	m.compare(w, st.Pre, st.Post, k)
}

func balKey(addr []byte, k uint64) string { return fmt.Sprintf("%x/%d", addr, k) }

func (m *C04) compare(w *eng.World, pre, post *snap.Snap, kind string) {
	postBal := map[string]*rat{}
	postRow := map[string][3]string{}
	for _, b := range post.Balances {
		postBal[balKey(b.Address, b.BatchKey)] = ref.MustRat(b.RetiredAmount)
		postRow[balKey(b.Address, b.BatchKey)] = [3]string{b.TradableAmount, b.RetiredAmount, b.EscrowedAmount}
	}
	for _, b := range pre.Balances {
		k := balKey(b.Address, b.BatchKey)
		was := ref.MustRat(b.RetiredAmount)
		now, ok := postBal[k]
		if !ok {
			if was.Sign() > 0 {
				w.Violation("C04", "retired-balance-row-deleted", "%s: balance row %s with retired %s disappeared", kind, k, b.RetiredAmount)
			}
			continue
		}
		if now.Cmp(was) < 0 {
			w.Violation("C04", "retired-balance-decreased", "%s: retired balance of %s went %s -> %s", kind, k, ref.RatString(was), ref.RatString(now))
		}
		if was.Sign() > 0 && postRow[k] != [3]string{b.TradableAmount, b.RetiredAmount, b.EscrowedAmount} {
			if m.writers[k] == nil {
				m.writers[k] = map[string]bool{}
			}
			m.writers[k][kind] = true
		}
	}
	for _, s := range pre.Supplies {
		ps := post.SupplyByKey(s.BatchKey)
		if ps == nil {
			w.Violation("C04", "supply-row-deleted", "%s: supply row of batch %d disappeared", kind, s.BatchKey)
			continue
		}
		if ref.MustRat(ps.RetiredAmount).Cmp(ref.MustRat(s.RetiredAmount)) < 0 {
			w.Violation("C04", "retired-supply-decreased", "%s: retired supply of batch %d went %s -> %s", kind, s.BatchKey, s.RetiredAmount, ps.RetiredAmount)
		}
		if ref.MustRat(ps.CancelledAmount).Cmp(ref.MustRat(s.CancelledAmount)) < 0 {
			w.Violation("C04", "cancelled-supply-decreased", "%s: cancelled supply of batch %d went %s -> %s", kind, s.BatchKey, s.CancelledAmount, ps.CancelledAmount)
		}
	}
}

func (m *C04) Finish(w *eng.World) bool {
	for _, ks := range m.writers {
		if len(ks) >= 3 {
			return true
		}
	}
	return false
}
