package mon

import (
	"fmt"
	"regexp"
	"strings"
	"time"

	basketapi "github.com/regen-network/regen-ledger/api/v2/regen/ecocredit/basket/v1"
	"github.com/regen-network/regen-ledger/x/ecocredit/v3/base"
	basetypes "github.com/regen-network/regen-ledger/x/ecocredit/v3/base/types/v1"
	"github.com/regen-network/regen-ledger/x/ecocredit/v3/basket"
	baskettypes "github.com/regen-network/regen-ledger/x/ecocredit/v3/basket/types/v1"

	"verif/eng"
	"verif/snap"
)

// Independently written formats (from the documentation in proto/state.proto and base/utils.go comments).
var (
	ReClassID    = regexp.MustCompile(`^[A-Z]{1,3}[0-9]{2,}$`)
	ReProjectID  = regexp.MustCompile(`^[A-Z]{1,3}[0-9]{2,}-[0-9]{3,}$`)
	ReBatchDenom = regexp.MustCompile(`^[A-Z]{1,3}[0-9]{2,}-[0-9]{3,}-[0-9]{8}-[0-9]{8}-[0-9]{3,}$`)
	ReBasketName = regexp.MustCompile(`^[a-zA-Z][a-zA-Z0-9]{2,7}$`)
)

// Pad renders n in decimal, left-padded with zeros to at least width digits.
func Pad(n uint64, width int) string {
	s := fmt.Sprintf("%d", n)
	for len(s) < width {
		s = "0" + s
	}
	return s
}

func RefClassID(abbrev string, seq uint64) string    { return abbrev + Pad(seq, 2) }
func RefProjectID(classID string, seq uint64) string { return classID + "-" + Pad(seq, 3) }
func RefBatchDenom(projectID string, seq uint64, start, end time.Time) string {
	d := func(t time.Time) string {
		t = t.UTC()
		return Pad(uint64(t.Year()), 4) + Pad(uint64(t.Month()), 2) + Pad(uint64(t.Day()), 2)
	}
	return projectID + "-" + d(start) + "-" + d(end) + "-" + Pad(seq, 3)
}

// C14 — identifiers unique, well-formed, consecutive; references resolve.
type C14 struct {
	eng.BaseMonitor
	classSeq   map[string]uint64
	projSeq    map[uint64]uint64
	batchSeq   map[uint64]uint64
	failedBetw bool
	crossWidth bool
	lastFailed map[string]bool
}

func (*C14) Property() string { return "C14" }

func (m *C14) Init(w *eng.World) {
	m.classSeq, m.projSeq, m.batchSeq, m.lastFailed = map[string]uint64{}, map[uint64]uint64{}, map[uint64]uint64{}, map[string]bool{}
	for _, s := range w.S.ClassSeqs {
		m.classSeq[s.CreditTypeAbbrev] = s.NextSequence
	}
	for _, s := range w.S.ProjectSeqs {
		m.projSeq[s.ClassKey] = s.NextSequence
	}
	for _, s := range w.S.BatchSeqs {
		m.batchSeq[s.ProjectKey] = s.NextSequence
	}
	m.check(w, w.S, "genesis")
}

func next(mp map[uint64]uint64, k uint64) uint64 {
	if mp[k] == 0 {
		return 1
	}
	return mp[k]
}

func (m *C14) AfterMsg(w *eng.World, st *eng.MsgStep) {
	pre, post := st.Pre, st.Post
	if !st.Res.OK {
		switch st.Msg.(type) {
		case *basetypes.MsgCreateClass, *basetypes.MsgCreateProject, *basetypes.MsgCreateBatch, *basetypes.MsgBridgeReceive:
			m.lastFailed[st.Kind] = true
		}
		return
	}
	switch msg := st.Msg.(type) {
	case *basetypes.MsgCreateClass:
		resp, _ := st.Res.RespMsg.(*basetypes.MsgCreateClassResponse)
		n := m.classSeq[msg.CreditTypeAbbrev]
		if n == 0 {
			n = 1
		}
		want := RefClassID(msg.CreditTypeAbbrev, n)
		if resp == nil || resp.ClassId != want {
			w.Violation("C14", "class-id-not-consecutive", "CreateClass returned %v, want %s (sequence %d for type %s)", resp, want, n, msg.CreditTypeAbbrev)
		}
		m.classSeq[msg.CreditTypeAbbrev] = n + 1
		m.noteCreation(st.Kind, n, 2)
	case *basetypes.MsgCreateProject:
		resp, _ := st.Res.RespMsg.(*basetypes.MsgCreateProjectResponse)
		c := pre.ClassByID(msg.ClassId)
		if c == nil {
			w.Violation("C14", "project-in-unknown-class", "accepted CreateProject in unknown class %s", msg.ClassId)
			break
		}
		n := next(m.projSeq, c.Key)
		want := RefProjectID(c.Id, n)
		if resp == nil || resp.ProjectId != want {
			w.Violation("C14", "project-id-not-consecutive", "CreateProject returned %v, want %s", resp, want)
		}
		m.projSeq[c.Key] = n + 1
		m.noteCreation(st.Kind, n, 3)
	case *basetypes.MsgCreateBatch:
		resp, _ := st.Res.RespMsg.(*basetypes.MsgCreateBatchResponse)
		p := pre.ProjectByID(msg.ProjectId)
		if p == nil {
			w.Violation("C14", "batch-in-unknown-project", "accepted CreateBatch in unknown project %s", msg.ProjectId)
			break
		}
		n := next(m.batchSeq, p.Key)
		want := RefBatchDenom(p.Id, n, *msg.StartDate, *msg.EndDate)
		if resp == nil || resp.BatchDenom != want {
			w.Violation("C14", "batch-denom-not-consecutive", "CreateBatch returned %v, want %s", resp, want)
		}
		m.batchSeq[p.Key] = n + 1
		m.noteCreation(st.Kind, n, 3)
	case *basetypes.MsgBridgeReceive:
		resp, _ := st.Res.RespMsg.(*basetypes.MsgBridgeReceiveResponse)
		c := pre.ClassByID(msg.ClassId)
		if resp == nil || c == nil {
			break
		}
		p := pre.ProjectByID(resp.ProjectId)
		if p == nil { // new project
			n := next(m.projSeq, c.Key)
			if want := RefProjectID(c.Id, n); resp.ProjectId != want {
				w.Violation("C14", "project-id-not-consecutive", "BridgeReceive created project %s, want %s", resp.ProjectId, want)
			}
			m.projSeq[c.Key] = n + 1
			p = post.ProjectByID(resp.ProjectId)
		}
		if p != nil && pre.BatchByDenom(resp.BatchDenom) == nil { // new batch
			n := next(m.batchSeq, p.Key)
			if want := RefBatchDenom(p.Id, n, *msg.Batch.StartDate, *msg.Batch.EndDate); resp.BatchDenom != want {
				w.Violation("C14", "batch-denom-not-consecutive", "BridgeReceive created batch %s, want %s", resp.BatchDenom, want)
			}
			m.batchSeq[p.Key] = n + 1
		}
	case *baskettypes.MsgCreate:
		resp, _ := st.Res.RespMsg.(*baskettypes.MsgCreateResponse)
		want := "eco.u" + msg.CreditTypeAbbrev + "." + msg.Name
		if resp == nil || resp.BasketDenom != want {
			w.Violation("C14", "basket-denom-wrong", "basket Create returned %v, want %s", resp, want)
		}
	}
	m.check(w, post, "msg "+st.Kind)
}

func (m *C14) noteCreation(kind string, n uint64, width int) {
	if m.lastFailed[kind] {
		m.failedBetw = true
	}
	m.lastFailed[kind] = false
	if len(fmt.Sprintf("%d", n)) > width {
		m.crossWidth = true
	}
}

func (m *C14) AfterBlock(w *eng.World, st *eng.BlockStep) { m.check(w, st.Post, "block") }

func (m *C14) check(w *eng.World, s *snap.Snap, where string) {
	// stored sequences == ghost counters
	for _, q := range s.ClassSeqs {
		if m.classSeq[q.CreditTypeAbbrev] != q.NextSequence {
			w.Violation("C14", "class-sequence-drift", "%s: stored class sequence for %s is %d, successful creations imply %d", where, q.CreditTypeAbbrev, q.NextSequence, m.classSeq[q.CreditTypeAbbrev])
		}
	}
	for _, q := range s.ProjectSeqs {
		if m.projSeq[q.ClassKey] != q.NextSequence {
			w.Violation("C14", "project-sequence-drift", "%s: stored project sequence for class key %d is %d, want %d", where, q.ClassKey, q.NextSequence, m.projSeq[q.ClassKey])
		}
	}
	for _, q := range s.BatchSeqs {
		if m.batchSeq[q.ProjectKey] != q.NextSequence {
			w.Violation("C14", "batch-sequence-drift", "%s: stored batch sequence for project key %d is %d, want %d", where, q.ProjectKey, q.NextSequence, m.batchSeq[q.ProjectKey])
		}
	}
	seen := map[string]bool{}
	uniq := func(kind, id string) {
		if seen[kind+"/"+id] {
			w.Violation("C14", "duplicate-"+kind, "%s: %s %q occurs twice", where, kind, id)
		}
		seen[kind+"/"+id] = true
	}
	for _, c := range s.Classes {
		uniq("class-id", c.Id)
		if !ReClassID.MatchString(c.Id) || base.ValidateClassID(c.Id) != nil {
			w.Violation("C14", "class-id-malformed", "%s: class id %q (regex %v, validator %v)", where, c.Id, ReClassID.MatchString(c.Id), base.ValidateClassID(c.Id))
		}
		if s.CreditType(c.CreditTypeAbbrev) == nil {
			w.Violation("C14", "class-credit-type-missing", "%s: class %s references missing credit type %q", where, c.Id, c.CreditTypeAbbrev)
		}
		if got := base.GetCreditTypeAbbrevFromClassID(c.Id); got != c.CreditTypeAbbrev {
			w.Violation("C14", "parser-credit-type", "%s: GetCreditTypeAbbrevFromClassID(%q) = %q, class has %q", where, c.Id, got, c.CreditTypeAbbrev)
		}
		if !strings.HasPrefix(c.Id, c.CreditTypeAbbrev) {
			w.Violation("C14", "class-id-prefix", "%s: class id %q does not start with its credit type %q", where, c.Id, c.CreditTypeAbbrev)
		}
	}
	for _, p := range s.Projects {
		uniq("project-id", p.Id)
		if !ReProjectID.MatchString(p.Id) || base.ValidateProjectID(p.Id) != nil {
			w.Violation("C14", "project-id-malformed", "%s: project id %q", where, p.Id)
		}
		c := s.ClassByKey(p.ClassKey)
		if c == nil {
			w.Violation("C14", "project-class-missing", "%s: project %s references missing class key %d", where, p.Id, p.ClassKey)
			continue
		}
		if got := base.GetClassIDFromProjectID(p.Id); got != c.Id {
			w.Violation("C14", "parser-class-from-project", "%s: GetClassIDFromProjectID(%q) = %q, project belongs to %q", where, p.Id, got, c.Id)
		}
	}
	for _, b := range s.Batches {
		uniq("batch-denom", b.Denom)
		if !ReBatchDenom.MatchString(b.Denom) || base.ValidateBatchDenom(b.Denom) != nil {
			w.Violation("C14", "batch-denom-malformed", "%s: batch denom %q", where, b.Denom)
		}
		p := s.ProjectByKey(b.ProjectKey)
		if p == nil {
			w.Violation("C14", "batch-project-missing", "%s: batch %s references missing project key %d", where, b.Denom, b.ProjectKey)
			continue
		}
		c := s.ClassByKey(p.ClassKey)
		if c == nil {
			continue
		}
		if got := base.GetProjectIDFromBatchDenom(b.Denom); got != p.Id {
			w.Violation("C14", "parser-project-from-denom", "%s: GetProjectIDFromBatchDenom(%q) = %q, batch belongs to %q", where, b.Denom, got, p.Id)
		}
		if got := base.GetClassIDFromBatchDenom(b.Denom); got != c.Id {
			w.Violation("C14", "parser-class-from-denom", "%s: GetClassIDFromBatchDenom(%q) = %q, batch belongs to %q", where, b.Denom, got, c.Id)
		}
		if b.ClassKey != 0 && s.ClassByKey(b.ClassKey) == nil {
			w.Violation("C14", "batch-class-key-missing", "%s: batch %s class_key %d missing", where, b.Denom, b.ClassKey)
		}
	}
	for _, x := range s.Balances {
		if s.BatchByKey(x.BatchKey) == nil {
			w.Violation("C14", "balance-batch-missing", "%s: balance row references missing batch key %d", where, x.BatchKey)
		}
	}
	for _, x := range s.Supplies {
		if s.BatchByKey(x.BatchKey) == nil {
			w.Violation("C14", "supply-batch-missing", "%s: supply row references missing batch key %d", where, x.BatchKey)
		}
	}
	for _, b := range s.Batches {
		if s.SupplyByKey(b.Key) == nil {
			w.Violation("C14", "batch-without-supply", "%s: batch %s has no supply row", where, b.Denom)
		}
	}
	for _, x := range s.Contracts {
		if s.BatchByKey(x.BatchKey) == nil || s.ClassByKey(x.ClassKey) == nil {
			w.Violation("C14", "contract-reference-missing", "%s: batch contract row (%d,%d) dangling", where, x.BatchKey, x.ClassKey)
		}
	}
	for _, x := range s.OriginTxs {
		if s.ClassByKey(x.ClassKey) == nil {
			w.Violation("C14", "origin-class-missing", "%s: origin tx row references missing class key %d", where, x.ClassKey)
		}
	}
	for _, x := range s.ClassIssuers {
		if s.ClassByKey(x.ClassKey) == nil {
			w.Violation("C14", "issuer-class-missing", "%s: issuer row references missing class key %d", where, x.ClassKey)
		}
	}
	for _, o := range s.SellOrders {
		if s.BatchByKey(o.BatchKey) == nil {
			w.Violation("C14", "order-batch-missing", "%s: sell order %d references missing batch key %d", where, o.Id, o.BatchKey)
		}
		if s.MarketByID(o.MarketId) == nil {
			w.Violation("C14", "order-market-missing", "%s: sell order %d references missing market %d", where, o.Id, o.MarketId)
		}
	}
	baskets := map[uint64]*basketapi.Basket{}
	for _, b := range s.Baskets {
		baskets[b.Id] = b
		uniq("basket-denom", b.BasketDenom)
		uniq("basket-name", b.Name)
		if !ReBasketName.MatchString(b.Name) || basket.ValidateBasketName(b.Name) != nil || basket.ValidateBasketDenom(b.BasketDenom) != nil {
			w.Violation("C14", "basket-name-malformed", "%s: basket name %q denom %q", where, b.Name, b.BasketDenom)
		}
		if s.CreditType(b.CreditTypeAbbrev) == nil {
			w.Violation("C14", "basket-credit-type-missing", "%s: basket %s references missing credit type %q", where, b.BasketDenom, b.CreditTypeAbbrev)
		}
	}
	for _, bc := range s.BasketClasses {
		if baskets[bc.BasketId] == nil || s.ClassByID(bc.ClassId) == nil {
			w.Violation("C14", "basket-class-dangling", "%s: basket class row (%d,%s) dangling", where, bc.BasketId, bc.ClassId)
		}
	}
	for _, bb := range s.BasketBalances {
		if baskets[bb.BasketId] == nil || s.BatchByDenom(bb.BatchDenom) == nil {
			w.Violation("C14", "basket-balance-dangling", "%s: basket balance row (%d,%s) dangling", where, bb.BasketId, bb.BatchDenom)
		}
	}
}

func (m *C14) Finish(*eng.World) bool { return m.failedBetw || m.crossWidth }
