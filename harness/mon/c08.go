package mon

import (
	"bytes"
	"fmt"
	"strings"

	sdk "github.com/cosmos/cosmos-sdk/types"
	"google.golang.org/protobuf/proto"

	basketapi "github.com/regen-network/regen-ledger/api/v2/regen/ecocredit/basket/v1"
	baseapi "github.com/regen-network/regen-ledger/api/v2/regen/ecocredit/v1"
	"github.com/regen-network/regen-ledger/x/data/v3"
	basetypes "github.com/regen-network/regen-ledger/x/ecocredit/v3/base/types/v1"
	baskettypes "github.com/regen-network/regen-ledger/x/ecocredit/v3/basket/types/v1"
	markettypes "github.com/regen-network/regen-ledger/x/ecocredit/v3/marketplace/types/v1"

	"verif/chain"
	"verif/eng"
	"verif/snap"
)

// C08 — role checks evaluated on the PRE-state, frame conditions, sealed batches.
type C08 struct {
	eng.BaseMonitor
	formerRejected    bool
	acceptedAfterMove bool
	moved             map[string]bool            // entity -> role moved at least once
	former            map[string]map[string]bool // entity/role -> former holders
}

func (*C08) Property() string { return "C08" }

func (m *C08) Init(*eng.World) {
	m.moved = map[string]bool{}
	m.former = map[string]map[string]bool{}
}

const (
	tClass       = "regen.ecocredit.v1.Class"
	tClassIssuer = "regen.ecocredit.v1.ClassIssuer"
	tProject     = "regen.ecocredit.v1.Project"
	tBatch       = "regen.ecocredit.v1.Batch"
	tBalance     = "regen.ecocredit.v1.BatchBalance"
	tSupply      = "regen.ecocredit.v1.BatchSupply"
	tOrigin      = "regen.ecocredit.v1.OriginTxIndex"
	tContract    = "regen.ecocredit.v1.BatchContract"
	tClassSeq    = "regen.ecocredit.v1.ClassSequence"
	tProjectSeq  = "regen.ecocredit.v1.ProjectSequence"
	tBatchSeq    = "regen.ecocredit.v1.BatchSequence"
	tCreditType  = "regen.ecocredit.v1.CreditType"
	tAllowlist   = "regen.ecocredit.v1.ClassCreatorAllowlist"
	tCreator     = "regen.ecocredit.v1.AllowedClassCreator"
	tClassFee    = "regen.ecocredit.v1.ClassFee"
	tBridgeChain = "regen.ecocredit.v1.AllowedBridgeChain"
	tBasket      = "regen.ecocredit.basket.v1.Basket"
	tBasketClass = "regen.ecocredit.basket.v1.BasketClass"
	tBasketBal   = "regen.ecocredit.basket.v1.BasketBalance"
	tBasketFee   = "regen.ecocredit.basket.v1.BasketFee"
	tSellOrder   = "regen.ecocredit.marketplace.v1.SellOrder"
	tDenom       = "regen.ecocredit.marketplace.v1.AllowedDenom"
	tMarket      = "regen.ecocredit.marketplace.v1.Market"
	tFeeParams   = "regen.ecocredit.marketplace.v1.FeeParams"
	tDataID      = "regen.data.v1.DataID"
	tDataAnchor  = "regen.data.v1.DataAnchor"
	tDataAttest  = "regen.data.v1.DataAttestor"
	tResolver    = "regen.data.v1.Resolver"
	tDataRes     = "regen.data.v1.DataResolver"
)

func addrOf(s string) sdk.AccAddress {
	a, _ := sdk.AccAddressFromBech32(s)
	return a
}

func isIssuer(s *snap.Snap, classKey uint64, a sdk.AccAddress) bool {
	for _, ci := range s.ClassIssuers {
		if ci.ClassKey == classKey && bytes.Equal(ci.Issuer, a) {
			return true
		}
	}
	return false
}

// frame describes the rows a message may write.
type frame struct {
	tables map[string]func(rc snap.RowChange) bool // nil func = any row of the table
	bank   bool                                    // bank balances / supply may change
}

func pkIs(vals ...interface{}) func(snap.RowChange) bool {
	var parts []string
	for _, v := range vals {
		switch x := v.(type) {
		case []byte:
			parts = append(parts, fmt.Sprintf("%x", x))
		default:
			parts = append(parts, fmt.Sprintf("%v", x))
		}
	}
	want := "[" + strings.Join(parts, " ") + "]"
	return func(rc snap.RowChange) bool { return rc.PK == want }
}

func pkPrefix(v interface{}) func(snap.RowChange) bool {
	want := fmt.Sprintf("[%v ", v)
	return func(rc snap.RowChange) bool { return strings.HasPrefix(rc.PK, want) }
}

func (m *C08) noteMove(entity string, old []byte) {
	m.moved[entity] = true
	if m.former[entity] == nil {
		m.former[entity] = map[string]bool{}
	}
	m.former[entity][string(old)] = true
}

func (m *C08) AfterMsg(w *eng.World, st *eng.MsgStep) {
	pre, post := st.Pre, st.Post
	auth := chain.Authority()
	var roleOK bool    // role predicate on the pre-state
	var roleWhy string // description for the report
	var fr *frame      // allowed write set (nil = not checked)
	var signer sdk.AccAddress
	entity := ""
	isAuth := func(s string) bool { a := addrOf(s); return a != nil && a.Equals(auth) }
	only := func(t string, f func(snap.RowChange) bool) *frame {
		return &frame{tables: map[string]func(snap.RowChange) bool{t: f}}
	}

	switch msg := st.Msg.(type) {
	case *basetypes.MsgCreateClass:
		signer = addrOf(msg.Admin)
		roleOK = len(pre.Allowlist) == 0 || !pre.Allowlist[0].Enabled
		for _, c := range pre.AllowedCreators {
			if bytes.Equal(c.Address, signer) {
				roleOK = true
			}
		}
		roleWhy = "allowlist off or signer allow-listed"
		fr = &frame{tables: map[string]func(snap.RowChange) bool{tClass: insertOnly, tClassIssuer: insertOnly, tClassSeq: nil}, bank: true}
	case *basetypes.MsgCreateProject:
		signer = addrOf(msg.Admin)
		if c := pre.ClassByID(msg.ClassId); c != nil {
			roleOK = isIssuer(pre, c.Key, signer)
			entity = "class-issuers/" + c.Id
		}
		roleWhy = "class issuer"
		fr = &frame{tables: map[string]func(snap.RowChange) bool{tProject: insertOnly, tProjectSeq: nil}}
		if c := pre.ClassByID(msg.ClassId); c != nil {
			fr.tables[tProjectSeq] = pkIs(c.Key)
		}
	case *basetypes.MsgCreateBatch:
		signer = addrOf(msg.Issuer)
		if p := pre.ProjectByID(msg.ProjectId); p != nil {
			roleOK = isIssuer(pre, p.ClassKey, signer)
			if c := pre.ClassByKey(p.ClassKey); c != nil {
				entity = "class-issuers/" + c.Id
			}
		}
		roleWhy = "class issuer"
		// a creation only inserts: the new batch, its supply, balance rows of the NEW batch, index rows
		newBatchRows := func(rc snap.RowChange) bool {
			if rc.Kind != "insert" {
				return false
			}
			for _, b := range pre.Batches {
				if strings.HasSuffix(rc.PK, fmt.Sprintf(" %d]", b.Key)) {
					return false // a balance row of an existing batch
				}
			}
			return true
		}
		fr = &frame{tables: map[string]func(snap.RowChange) bool{tBatch: insertOnly, tBatchSeq: nil, tBalance: newBatchRows, tSupply: insertOnly, tOrigin: insertOnly, tContract: insertOnly}}
		if p := pre.ProjectByID(msg.ProjectId); p != nil {
			fr.tables[tBatchSeq] = pkIs(p.Key)
		}
	case *basetypes.MsgMintBatchCredits:
		signer = addrOf(msg.Issuer)
		if b := pre.BatchByDenom(msg.BatchDenom); b != nil {
			roleOK = bytes.Equal(b.Issuer, signer) && b.Open
			fr = &frame{tables: map[string]func(snap.RowChange) bool{tBalance: func(rc snap.RowChange) bool { return strings.HasSuffix(rc.PK, fmt.Sprintf(" %d]", b.Key)) }, tSupply: pkIs(b.Key), tOrigin: insertOnly}}
		}
		roleWhy = "batch issuer and batch open"
	case *basetypes.MsgUpdateBatchMetadata:
		signer = addrOf(msg.Issuer)
		if b := pre.BatchByDenom(msg.BatchDenom); b != nil {
			roleOK = bytes.Equal(b.Issuer, signer) && b.Open
			fr = only(tBatch, pkIs(b.Key))
			if st.Res.OK {
				x := proto.Clone(b).(*baseapi.Batch)
				x.Metadata = msg.NewMetadata
				if pb := post.BatchByKey(b.Key); pb == nil || !proto.Equal(x, pb) {
					w.Violation("C08", "update-changed-other-field", "UpdateBatchMetadata changed more than the metadata: %v -> %v", b, pb)
				}
			}
		}
		roleWhy = "batch issuer and batch open"
	case *basetypes.MsgSealBatch:
		signer = addrOf(msg.Issuer)
		if b := pre.BatchByDenom(msg.BatchDenom); b != nil {
			roleOK = bytes.Equal(b.Issuer, signer)
			fr = only(tBatch, pkIs(b.Key))
			if st.Res.OK {
				x := proto.Clone(b).(*baseapi.Batch)
				x.Open = false
				if pb := post.BatchByKey(b.Key); pb == nil || !proto.Equal(x, pb) {
					w.Violation("C08", "update-changed-other-field", "SealBatch changed more than the open flag: %v -> %v", b, pb)
				}
			}
		}
		roleWhy = "batch issuer"
	case *basetypes.MsgUpdateClassAdmin:
		signer = addrOf(msg.Admin)
		if c := pre.ClassByID(msg.ClassId); c != nil {
			roleOK = bytes.Equal(c.Admin, signer)
			entity = "class-admin/" + c.Id
			fr = only(tClass, pkIs(c.Key))
			if st.Res.OK {
				x := proto.Clone(c).(*baseapi.Class)
				x.Admin = addrOf(msg.NewAdmin)
				if pc := post.ClassByKey(c.Key); pc == nil || !proto.Equal(x, pc) {
					w.Violation("C08", "update-changed-other-field", "UpdateClassAdmin changed more than the admin: %v -> %v", c, pc)
				}
				m.noteMove(entity, c.Admin)
			}
		}
		roleWhy = "class admin"
	case *basetypes.MsgUpdateClassIssuers:
		signer = addrOf(msg.Admin)
		if c := pre.ClassByID(msg.ClassId); c != nil {
			roleOK = bytes.Equal(c.Admin, signer)
			entity = "class-admin/" + c.Id
			fr = only(tClassIssuer, pkPrefix(c.Key))
			if st.Res.OK {
				for _, r := range msg.RemoveIssuers {
					m.noteMove("class-issuers/"+c.Id, addrOf(r))
				}
				// exact effect: issuers' = issuers - removed + added
				want := map[string]bool{}
				for _, ci := range pre.ClassIssuers {
					if ci.ClassKey == c.Key {
						want[string(ci.Issuer)] = true
					}
				}
				for _, r := range msg.RemoveIssuers {
					delete(want, string(addrOf(r)))
				}
				for _, a := range msg.AddIssuers {
					want[string(addrOf(a))] = true
				}
				got := map[string]bool{}
				for _, ci := range post.ClassIssuers {
					if ci.ClassKey == c.Key {
						got[string(ci.Issuer)] = true
					}
				}
				same := len(got) == len(want)
				for k := range want {
					if !got[k] {
						same = false
					}
				}
				if !same {
					w.Violation("C08", "issuer-set-differs-from-message", "UpdateClassIssuers(add %v, remove %v) on class %s accepted but the issuer set is now %d entries, the message implies %d (a removed issuer keeps, or an added issuer lacks, the role)", msg.AddIssuers, msg.RemoveIssuers, c.Id, len(got), len(want))
				}
			}
		}
		roleWhy = "class admin"
	case *basetypes.MsgUpdateClassMetadata:
		signer = addrOf(msg.Admin)
		if c := pre.ClassByID(msg.ClassId); c != nil {
			roleOK = bytes.Equal(c.Admin, signer)
			entity = "class-admin/" + c.Id
			fr = only(tClass, pkIs(c.Key))
			if st.Res.OK {
				x := proto.Clone(c).(*baseapi.Class)
				x.Metadata = msg.NewMetadata
				if pc := post.ClassByKey(c.Key); pc == nil || !proto.Equal(x, pc) {
					w.Violation("C08", "update-changed-other-field", "UpdateClassMetadata changed more than the metadata: %v -> %v", c, pc)
				}
			}
		}
		roleWhy = "class admin"
	case *basetypes.MsgUpdateProjectAdmin:
		signer = addrOf(msg.Admin)
		if p := pre.ProjectByID(msg.ProjectId); p != nil {
			roleOK = bytes.Equal(p.Admin, signer)
			entity = "project-admin/" + p.Id
			fr = only(tProject, pkIs(p.Key))
			if st.Res.OK {
				x := proto.Clone(p).(*baseapi.Project)
				x.Admin = addrOf(msg.NewAdmin)
				if pp := post.ProjectByKey(p.Key); pp == nil || !proto.Equal(x, pp) {
					w.Violation("C08", "update-changed-other-field", "UpdateProjectAdmin changed more than the admin: %v -> %v", p, pp)
				}
				m.noteMove(entity, p.Admin)
			}
		}
		roleWhy = "project admin"
	case *basetypes.MsgUpdateProjectMetadata:
		signer = addrOf(msg.Admin)
		if p := pre.ProjectByID(msg.ProjectId); p != nil {
			roleOK = bytes.Equal(p.Admin, signer)
			entity = "project-admin/" + p.Id
			fr = only(tProject, pkIs(p.Key))
			if st.Res.OK {
				x := proto.Clone(p).(*baseapi.Project)
				x.Metadata = msg.NewMetadata
				if pp := post.ProjectByKey(p.Key); pp == nil || !proto.Equal(x, pp) {
					w.Violation("C08", "update-changed-other-field", "UpdateProjectMetadata changed more than the metadata: %v -> %v", p, pp)
				}
			}
		}
		roleWhy = "project admin"
	case *basetypes.MsgBridgeReceive:
		signer = addrOf(msg.Issuer)
		if c := pre.ClassByID(msg.ClassId); c != nil && msg.OriginTx != nil {
			bound := false
			for _, bc := range pre.Contracts {
				if bc.ClassKey == c.Key && bc.Contract == msg.OriginTx.Contract {
					bound = true
					if b := pre.BatchByKey(bc.BatchKey); b != nil {
						roleOK = bytes.Equal(b.Issuer, signer) && b.Open
						roleWhy = "issuer of the batch bound to the contract, batch open"
					}
				}
			}
			if !bound {
				roleOK = isIssuer(pre, c.Key, signer)
				roleWhy = "class issuer"
				entity = "class-issuers/" + c.Id
			}
		}
	case *baskettypes.MsgUpdateCurator:
		signer = addrOf(msg.Curator)
		if b := pre.BasketByDenom(msg.Denom); b != nil {
			roleOK = bytes.Equal(b.Curator, signer)
			entity = "curator/" + b.BasketDenom
			fr = only(tBasket, pkIs(b.Id))
			if st.Res.OK {
				pb := post.BasketByID(b.Id)
				x := proto.Clone(b).(*basketapi.Basket)
				x.Curator = addrOf(msg.NewCurator)
				if pb == nil || !proto.Equal(x, pb) {
					w.Violation("C08", "update-changed-other-field", "UpdateCurator changed more than the curator: %v -> %v", b, pb)
				}
				m.noteMove(entity, b.Curator)
			}
		}
		roleWhy = "basket curator"
	case *markettypes.MsgUpdateSellOrders:
		signer = addrOf(msg.Seller)
		roleOK = true
		fr = &frame{tables: map[string]func(snap.RowChange) bool{tMarket: nil}}
		var orderOK, balOK []func(snap.RowChange) bool
		for _, u := range msg.Updates {
			o := pre.OrderByID(u.SellOrderId)
			if o == nil {
				roleOK = false
				continue
			}
			if !bytes.Equal(o.Seller, signer) {
				roleOK = false
			}
			orderOK = append(orderOK, pkIs(o.Id))
			balOK = append(balOK, pkIs([]byte(o.Seller), o.BatchKey))
		}
		fr.tables[tSellOrder] = anyOf(orderOK)
		fr.tables[tBalance] = anyOf(balOK)
		roleWhy = "seller of every named order"
	case *markettypes.MsgCancelSellOrder:
		signer = addrOf(msg.Seller)
		if o := pre.OrderByID(msg.SellOrderId); o != nil {
			roleOK = bytes.Equal(o.Seller, signer)
			fr = &frame{tables: map[string]func(snap.RowChange) bool{tSellOrder: pkIs(o.Id), tBalance: pkIs([]byte(o.Seller), o.BatchKey)}}
		}
		roleWhy = "seller of the order"
	case *data.MsgRegisterResolver:
		signer = addrOf(msg.Signer)
		for _, r := range pre.Resolvers {
			if r.Id == msg.ResolverId {
				roleOK = len(r.Manager) == 0 || bytes.Equal(r.Manager, signer)
			}
		}
		fr = &frame{tables: map[string]func(snap.RowChange) bool{tDataRes: func(rc snap.RowChange) bool { return strings.HasSuffix(rc.PK, fmt.Sprintf(" %d]", msg.ResolverId)) }, tDataID: nil, tDataAnchor: nil}}
		roleWhy = "resolver public or signer is its manager"

	// ---- governance: the authority ----
	case *basetypes.MsgAddCreditType:
		signer, roleOK, roleWhy = addrOf(msg.Authority), isAuth(msg.Authority), "governance authority"
		fr = only(tCreditType, nil)
	case *basetypes.MsgSetClassCreatorAllowlist:
		signer, roleOK, roleWhy = addrOf(msg.Authority), isAuth(msg.Authority), "governance authority"
		fr = only(tAllowlist, nil)
		if st.Res.OK && (len(post.Allowlist) == 0 && msg.Enabled || len(post.Allowlist) > 0 && post.Allowlist[0].Enabled != msg.Enabled) {
			w.Violation("C08", "allowlist-flag-differs-from-message", "SetClassCreatorAllowlist(%v) accepted but state says %v", msg.Enabled, post.Allowlist)
		}
	case *basetypes.MsgAddClassCreator:
		signer, roleOK, roleWhy = addrOf(msg.Authority), isAuth(msg.Authority), "governance authority"
		fr = only(tCreator, pkIs([]byte(addrOf(msg.Creator))))
		if st.Res.OK && !hasCreator(post, addrOf(msg.Creator)) {
			w.Violation("C08", "creator-not-added", "AddClassCreator(%s) accepted but the creator is not on the list", msg.Creator)
		}
	case *basetypes.MsgRemoveClassCreator:
		signer, roleOK, roleWhy = addrOf(msg.Authority), isAuth(msg.Authority), "governance authority"
		fr = only(tCreator, pkIs([]byte(addrOf(msg.Creator))))
		if st.Res.OK && hasCreator(post, addrOf(msg.Creator)) {
			w.Violation("C08", "creator-not-removed", "RemoveClassCreator(%s) accepted but the creator is still on the list", msg.Creator)
		}
	case *basetypes.MsgUpdateClassFee:
		signer, roleOK, roleWhy = addrOf(msg.Authority), isAuth(msg.Authority), "governance authority"
		fr = only(tClassFee, nil)
	case *basetypes.MsgAddAllowedBridgeChain:
		signer, roleOK, roleWhy = addrOf(msg.Authority), isAuth(msg.Authority), "governance authority"
		fr = only(tBridgeChain, pkIs(strings.ToLower(msg.ChainName)))
	case *basetypes.MsgRemoveAllowedBridgeChain:
		signer, roleOK, roleWhy = addrOf(msg.Authority), isAuth(msg.Authority), "governance authority"
		fr = only(tBridgeChain, pkIs(strings.ToLower(msg.ChainName)))
	case *baskettypes.MsgUpdateBasketFee:
		signer, roleOK, roleWhy = addrOf(msg.Authority), isAuth(msg.Authority), "governance authority"
		fr = only(tBasketFee, nil)
	case *baskettypes.MsgUpdateDateCriteria:
		signer, roleOK, roleWhy = addrOf(msg.Authority), isAuth(msg.Authority), "governance authority"
		if b := pre.BasketByDenom(msg.Denom); b != nil {
			fr = only(tBasket, pkIs(b.Id))
			if st.Res.OK {
				pb := post.BasketByID(b.Id)
				x := proto.Clone(b).(*basketapi.Basket)
				if pb != nil {
					x.DateCriteria = pb.DateCriteria
				}
				if pb == nil || !proto.Equal(x, pb) {
					w.Violation("C08", "update-changed-other-field", "UpdateDateCriteria changed more than the date criteria: %v -> %v", b, pb)
				}
			}
		}
	case *markettypes.MsgAddAllowedDenom:
		signer, roleOK, roleWhy = addrOf(msg.Authority), isAuth(msg.Authority), "governance authority"
		fr = only(tDenom, pkIs(msg.BankDenom))
	case *markettypes.MsgRemoveAllowedDenom:
		signer, roleOK, roleWhy = addrOf(msg.Authority), isAuth(msg.Authority), "governance authority"
		fr = only(tDenom, pkIs(msg.Denom))
	case *markettypes.MsgGovSetFeeParams:
		signer, roleOK, roleWhy = addrOf(msg.Authority), isAuth(msg.Authority), "governance authority"
		fr = only(tFeeParams, nil)
	case *markettypes.MsgGovSendFromFeePool:
		signer, roleOK, roleWhy = addrOf(msg.Authority), isAuth(msg.Authority), "governance authority"
		fr = &frame{tables: map[string]func(snap.RowChange) bool{}, bank: true}
		if st.Res.OK {
			pool, rc := chain.FeePoolAddr().String(), addrOf(msg.Recipient).String()
			for _, ch := range st.Diff().Bank {
				if ch.Addr != pool && ch.Addr != rc {
					w.Violation("C08", "fee-pool-send-touched-other-account", "GovSendFromFeePool changed %s of %s", ch.Denom, ch.Addr)
				}
			}
			if len(st.Diff().Supply) != 0 {
				w.Violation("C08", "fee-pool-send-changed-supply", "GovSendFromFeePool changed total supply: %v", st.Diff().Supply)
			}
		}

	// ---- the four unimplemented RPCs ----
	case *basetypes.MsgCreateUnregisteredProject, *basetypes.MsgCreateOrUpdateApplication, *basetypes.MsgUpdateProjectEnrollment, *basetypes.MsgUpdateProjectFee:
		if st.Res.OK {
			w.Violation("C08", "unimplemented-rpc-accepted", "%T was accepted although it has no implementation", msg)
		}
		return
	default:
		m.sealedFrozen(w, st)
		return
	}

	// the account whose signature the chain demands (GetSigners) is exactly the account in the message's role
	// field: the handlers authorise the field, the ante handler authenticates GetSigners
	if signer != nil && st.Res.Stage != "basic" && st.Res.Stage != "decode" {
		var got []sdk.AccAddress
		func() {
			defer func() {
				if r := recover(); r != nil {
					got = nil
				}
			}()
			got = st.Msg.GetSigners()
		}()
		if len(got) != 1 || !got[0].Equals(signer) {
			w.Violation("C08", "signers-differ-from-role-field/"+st.Kind, "%s: GetSigners() = %v but the role is checked against %s", st.Kind, got, signer)
		}
	}

	if st.Res.OK {
		if !roleOK {
			w.Violation("C08", "accepted-without-role/"+st.Kind, "%s signed by %s was accepted but the signer does not hold the required role (%s) in the pre-state", st.Kind, signer, roleWhy)
		}
		if fr != nil {
			d := st.Diff()
			for _, rc := range d.Rows {
				f, ok := fr.tables[rc.Table]
				if !ok || (f != nil && !f(rc)) {
					w.Violation("C08", "wrote-outside-named-entity/"+st.Kind, "%s %s row %s of table %s, which the message does not name", st.Kind, rc.Kind, rc.PK, rc.Table)
				}
			}
			if !fr.bank && (len(d.Bank) > 0 || len(d.Supply) > 0) {
				w.Violation("C08", "moved-coins/"+st.Kind, "%s moved coins: %s", st.Kind, d.String())
			}
		}
		if entity != "" && m.moved[entity] {
			m.acceptedAfterMove = true
		}
	} else if st.Res.Stage == "handler" && entity != "" && signer != nil && m.former[entity][string(signer)] {
		m.formerRejected = true
	}
	m.sealedFrozen(w, st)
}

func insertOnly(rc snap.RowChange) bool { return rc.Kind == "insert" }

func hasCreator(s *snap.Snap, a sdk.AccAddress) bool {
	for _, c := range s.AllowedCreators {
		if bytes.Equal(c.Address, a) {
			return true
		}
	}
	return false
}

func anyOf(fs []func(snap.RowChange) bool) func(snap.RowChange) bool {
	return func(rc snap.RowChange) bool {
		for _, f := range fs {
			if f(rc) {
				return true
			}
		}
		return false
	}
}

// sealedFrozen: a sealed batch's row never changes again.
func (m *C08) sealedFrozen(w *eng.World, st *eng.MsgStep) {
	if !st.Res.OK {
		return
	}
	for _, b := range st.Pre.Batches {
		if b.Open {
			continue
		}
		pb := st.Post.BatchByKey(b.Key)
		if pb == nil || !proto.Equal(b, pb) {
			w.Violation("C08", "sealed-batch-changed", "%s changed sealed batch %s: %v -> %v", st.Kind, b.Denom, b, pb)
		}
	}
}

func (m *C08) AfterBlock(w *eng.World, st *eng.BlockStep) {
	for _, b := range st.Pre.Batches {
		pb := st.Post.BatchByKey(b.Key)
		if pb == nil || !proto.Equal(b, pb) {
			w.Violation("C08", "block-changed-batch", "BeginBlock changed batch %s", b.Denom)
		}
	}
}

func (m *C08) Finish(*eng.World) bool { return m.acceptedAfterMove && m.formerRejected }
