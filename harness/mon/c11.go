package mon

import (
	"fmt"
	"math/big"
	"strings"
	"time"

	sdk "github.com/cosmos/cosmos-sdk/types"

	basketapi "github.com/regen-network/regen-ledger/api/v2/regen/ecocredit/basket/v1"
	baskettypes "github.com/regen-network/regen-ledger/x/ecocredit/v3/basket/types/v1"

	"verif/chain"
	"verif/eng"
	"verif/ref"
	"verif/snap"
)

// C11 — basket admission (both directions), oldest-first take, auto-retire.
type C11 struct {
	eng.BaseMonitor
	boundaryPut, outOfOrderTake bool
	depositSeq                  map[string]int
	seq                         int
}

func (*C11) Property() string { return "C11" }

func (m *C11) Init(*eng.World) { m.depositSeq = map[string]int{} }

// minStart computes the basket's date criterion at block time with exact
// calendar arithmetic (no time.Duration saturation). ok=false: no criterion.
func minStart(b *basketapi.Basket, blockTime time.Time) (t time.Time, ok bool, wide bool) {
	dc := b.DateCriteria
	if dc == nil {
		return time.Time{}, false, false
	}
	switch {
	case dc.MinStartDate != nil:
		return dc.MinStartDate.AsTime(), true, false
	case dc.StartDateWindow != nil:
		secs, nanos := dc.StartDateWindow.Seconds, int64(dc.StartDateWindow.Nanos)
		// exact: subtract seconds in chunks that fit a Duration
		t := blockTime
		const chunk = int64(100 * 365 * 24 * 3600)
		wide := secs > 9223372036 // beyond what time.Duration can hold
		for secs > chunk {
			t = t.Add(-time.Duration(chunk) * time.Second)
			secs -= chunk
		}
		t = t.Add(-time.Duration(secs) * time.Second).Add(-time.Duration(nanos))
		return t, true, wide
	case dc.YearsInThePast != 0:
		return time.Date(blockTime.Year()-int(dc.YearsInThePast), 1, 1, 0, 0, 0, 0, time.UTC), true, false
	}
	return time.Time{}, false, false
}

type putVerdict struct {
	ok      bool
	why     string
	unclear string // non-empty: a precondition outside the stated ones is in doubt; only the "only if" direction is asserted
	atEdge  bool
}

func canPut(s *snap.Snap, blockTime time.Time, msg *baskettypes.MsgPut) putVerdict {
	v := putVerdict{ok: true}
	fail := func(why string) putVerdict { v.ok = false; v.why = why; return v }
	bsk := s.BasketByDenom(msg.BasketDenom)
	if bsk == nil {
		return fail("basket does not exist")
	}
	owner, err := sdk.AccAddressFromBech32(msg.Owner)
	if err != nil {
		return fail("bad owner")
	}
	if chain.IsBlocked(owner.String()) {
		v.unclear = "owner is a blocked module account"
	}
	prec := uint32(basketPrecision(s, bsk.CreditTypeAbbrev))
	remaining := map[uint64]*rat{}
	totalTokens := zero()
	for _, c := range msg.Credits {
		b := s.BatchByDenom(c.BatchDenom)
		if b == nil {
			return fail("batch does not exist")
		}
		if min, has, wide := minStart(bsk, blockTime); has {
			st := b.StartDate.AsTime()
			if st.Before(min) {
				return fail("start date before the criterion")
			}
			if st.Equal(min) {
				v.atEdge = true
			}
			if wide {
				v.unclear = "window longer than ~292 years"
			}
		}
		cls := s.ClassOfBatch(b)
		if cls == nil {
			return fail("batch has no class")
		}
		listed := false
		for _, bc := range s.BasketClasses {
			if bc.BasketId == bsk.Id && bc.ClassId == cls.Id {
				listed = true
			}
		}
		if !listed {
			return fail("class not on the basket's list")
		}
		if cls.CreditTypeAbbrev != bsk.CreditTypeAbbrev {
			return fail("credit type differs")
		}
		amt, ok := ref.ParseRat(c.Amount)
		if !ok || amt.Sign() <= 0 {
			return fail("amount not positive")
		}
		if !ref.WithinPrecision(amt, prec) {
			return fail("amount exceeds precision")
		}
		if tp := ref.TextDecimalPlaces(c.Amount); tp < 0 || tp > int(prec) || strings.ContainsAny(c.Amount, "eE") {
			v.unclear = "amount written with an exponent or with more trailing decimals than the precision"
		}
		if _, ok := remaining[b.Key]; !ok {
			t, _, _ := s.Balance(owner, b.Key)
			remaining[b.Key] = t
		}
		if remaining[b.Key].Cmp(amt) < 0 {
			return fail("owner does not have the credits")
		}
		remaining[b.Key] = sub(remaining[b.Key], amt)
		tok := new(big.Rat).Mul(amt, new(big.Rat).SetInt(ref.Pow10(int(prec))))
		totalTokens.Add(totalTokens, tok)
		if d := ref.SigDigits(tok); d > 34 {
			v.unclear = "token amount needs more than 34 significant digits"
		} else if spelledDigits(c.Amount) > 34 && v.unclear == "" {
			v.unclear = "amount is spelled with more than 34 digits (trailing zeros)"
		}
	}
	if totalTokens.Num().BitLen() > 250 {
		v.unclear = "token amount does not fit a coin (256 bits)"
	}
	return v
}

func (m *C11) AfterMsg(w *eng.World, st *eng.MsgStep) {
	if st.Res.OK {
		defer m.checkBalanceDates(w, st.Post, "msg "+st.Kind)
	}
	switch msg := st.Msg.(type) {
	case *baskettypes.MsgPut:
		if st.Res.Stage == "basic" {
			return // malformed message, not in the domain of the admission rule
		}
		v := canPut(st.Pre, st.Pre.Time, msg)
		if st.Res.OK && !v.ok {
			w.Violation("C11", "put-accepted-against-rule", "Put accepted although: %s (msg %v)", v.why, msg)
		}
		if !st.Res.OK && v.ok {
			if v.unclear != "" {
				eng.G.Count("C11/put-rejected-unclear: "+v.unclear, 1)
				if strings.Contains(v.unclear, "292") {
					w.Violation("C11", "put-rejected/window>292y", "Put rejected (%v) although the start date is not earlier than block time minus the window (window exceeds what the chain's duration type can hold)", st.Res.Err)
				}
				if strings.Contains(v.unclear, "spelled with more than 34") {
					w.Violation("C11", "put-rejected/>34-digits-as-spelled", "Put rejected (%v) although every stated condition holds (the amount's value needs <= 34 digits but it is written with more, e.g. trailing zeros)", st.Res.Err)
				}
				if strings.Contains(v.unclear, "34 significant") {
					w.Violation("C11", "put-rejected/>34-digits", "Put rejected (%v) although every stated condition holds (token amount needs > 34 digits)", st.Res.Err)
				}
			} else if st.Res.OutOfGas {
				eng.G.Count("C11/put-out-of-gas", 1)
			} else {
				w.Violation("C11", "put-rejected-against-rule", "Put rejected (%v) although the class is listed, the type matches, the start date qualifies and the owner has the credits: %v", st.Res.Err, msg)
			}
		}
		if st.Res.OK {
			if v.atEdge {
				m.boundaryPut = true
			}
			for _, c := range msg.Credits {
				k := msg.BasketDenom + "|" + c.BatchDenom
				if _, ok := m.depositSeq[k]; !ok {
					m.seq++
					m.depositSeq[k] = m.seq
				}
			}
		}
	case *baskettypes.MsgTake:
		if st.Res.OK {
			m.checkTake(w, st, msg)
		}
	case *baskettypes.MsgUpdateDateCriteria:
		if st.Res.OK {
			if b := st.Post.BasketByDenom(msg.Denom); b != nil {
				m.checkStoredCriteria(w, "UpdateDateCriteria", b, msg.NewDateCriteria)
			}
		}
	case *baskettypes.MsgCreate:
		if st.Res.OK {
			if resp, ok := st.Res.RespMsg.(*baskettypes.MsgCreateResponse); ok {
				if b := st.Post.BasketByDenom(resp.BasketDenom); b != nil {
					m.checkStoredCriteria(w, "basket Create", b, msg.DateCriteria)
				}
			}
		}
	}
}

// checkStoredCriteria: the criterion a basket enforces is exactly the one the
// accepted message states (exactly one variant, nothing left over from before).
func (m *C11) checkStoredCriteria(w *eng.World, what string, b *basketapi.Basket, want *baskettypes.DateCriteria) {
	got := b.DateCriteria
	var gm, wm, gw, ww string
	var gy, wy uint32
	if got != nil {
		if got.MinStartDate != nil {
			gm = got.MinStartDate.AsTime().String()
		}
		if got.StartDateWindow != nil {
			gw = fmt.Sprintf("%d.%09d", got.StartDateWindow.Seconds, got.StartDateWindow.Nanos)
		}
		gy = got.YearsInThePast
	}
	if want != nil {
		switch {
		case want.MinStartDate != nil:
			wm = time.Unix(want.MinStartDate.Seconds, int64(want.MinStartDate.Nanos)).UTC().String()
		case want.StartDateWindow != nil:
			ww = fmt.Sprintf("%d.%09d", want.StartDateWindow.Seconds, want.StartDateWindow.Nanos)
		default:
			wy = want.YearsInThePast
		}
	}
	if gm != wm || gw != ww || gy != wy {
		w.Violation("C11", "stored-criteria-differs-from-message", "%s accepted with date criteria %v but the basket now enforces %v", what, want, got)
	}
}

func (m *C11) checkTake(w *eng.World, st *eng.MsgStep, msg *baskettypes.MsgTake) {
	pre, post := st.Pre, st.Post
	bsk := pre.BasketByDenom(msg.BasketDenom)
	if bsk == nil {
		w.Violation("C11", "take-unknown-basket", "accepted Take from unknown basket %s", msg.BasketDenom)
		return
	}
	if !bsk.DisableAutoRetire && !msg.RetireOnTake {
		w.Violation("C11", "auto-retire-bypassed", "accepted Take with retire_on_take=false from auto-retire basket %s", bsk.BasketDenom)
	}
	resp, _ := st.Res.RespMsg.(*baskettypes.MsgTakeResponse)
	if resp == nil || len(resp.Credits) == 0 {
		w.Violation("C11", "take-empty-response", "accepted Take returned no credits")
		return
	}
	owner, _ := sdk.AccAddressFromBech32(msg.Owner)
	preBal := map[string]*basketapi.BasketBalance{}
	for _, bb := range pre.BasketBalances {
		if bb.BasketId == bsk.Id {
			preBal[bb.BatchDenom] = bb
		}
	}
	// the amount as the chain read it = the tokens it burnt (C05 checks that this is a reading of the string)
	amt := new(big.Int).Sub(pre.SupplyOf(bsk.BasketDenom), post.SupplyOf(bsk.BasketDenom))
	want := new(big.Rat).SetFrac(amt, ref.Pow10(basketPrecision(pre, bsk.CreditTypeAbbrev)))
	sum := zero()
	var lastDate time.Time
	taken := map[string]*rat{}
	outOfOrder := false
	lastSeq := 0
	for i, c := range resp.Credits {
		bb := preBal[c.BatchDenom]
		if bb == nil {
			w.Violation("C11", "take-from-batch-not-in-basket", "Take response lists %s which the basket did not hold", c.BatchDenom)
			return
		}
		if taken[c.BatchDenom] != nil {
			w.Violation("C11", "take-lists-batch-twice", "Take response lists %s twice", c.BatchDenom)
		}
		a := ref.MustRat(c.Amount)
		taken[c.BatchDenom] = a
		sum.Add(sum, a)
		held := ref.MustRat(bb.Balance)
		// an entry of exactly zero (valid state, only a genesis document contains one) is drained by taking zero from it
		if a.Sign() < 0 || (a.Sign() == 0 && held.Sign() != 0) || a.Cmp(held) > 0 {
			w.Violation("C11", "take-entry-amount-wrong", "Take entry %s amount %s, basket held %s", c.BatchDenom, c.Amount, bb.Balance)
		}
		if i < len(resp.Credits)-1 && a.Cmp(held) != 0 {
			w.Violation("C11", "take-skipped-before-draining", "Take moved on to the next batch although %s still held %s (took %s)", c.BatchDenom, bb.Balance, c.Amount)
		}
		d := batchStart(pre, bb)
		if i > 0 && d.Before(lastDate) {
			w.Violation("C11", "take-not-oldest-first", "Take entry %d (%s, start %s) is older than the previous entry (start %s)", i, c.BatchDenom, d, lastDate)
		}
		lastDate = d
		if s := m.depositSeq[msg.BasketDenom+"|"+c.BatchDenom]; s < lastSeq {
			outOfOrder = true
		} else {
			lastSeq = s
		}
	}
	if sum.Cmp(want) != 0 {
		w.Violation("C11", "take-total-wrong", "Take of %s tokens released %s credits, want %s", msg.Amount, ref.RatString(sum), ref.RatString(want))
	}
	for dn, bb := range preBal {
		if taken[dn] == nil && batchStart(pre, bb).Before(lastDate) {
			w.Violation("C11", "take-left-older-batch", "Take left batch %s (start %s) untouched while taking from a batch starting %s", dn, batchStart(pre, bb), lastDate)
		}
	}
	// post-state basket balances
	postBal := map[string]*rat{}
	for _, bb := range post.BasketBalances {
		if bb.BasketId == bsk.Id {
			postBal[bb.BatchDenom] = ref.MustRat(bb.Balance)
		}
	}
	for dn, bb := range preBal {
		exp := ref.MustRat(bb.Balance)
		if t := taken[dn]; t != nil {
			exp = sub(exp, t)
		}
		got := postBal[dn]
		if got == nil {
			got = zero()
		}
		if got.Cmp(exp) != 0 {
			w.Violation("C11", "take-basket-balance-wrong", "after Take the basket holds %s of %s, want %s", ref.RatString(got), dn, ref.RatString(exp))
		}
		if exp.Sign() == 0 && postBal[dn] != nil && taken[dn] != nil {
			w.Violation("C11", "take-zero-row-kept", "drained basket balance row for %s kept with balance %s", dn, ref.RatString(postBal[dn]))
		}
	}
	// delivered retired iff retire applies
	for dn, a := range taken {
		b := pre.BatchByDenom(dn)
		if b == nil {
			continue
		}
		t0, r0, _ := pre.Balance(owner, b.Key)
		t1, r1, _ := post.Balance(owner, b.Key)
		dt, dr := sub(t1, t0), sub(r1, r0)
		if msg.RetireOnTake {
			if dr.Cmp(a) != 0 || dt.Sign() != 0 {
				w.Violation("C11", "take-not-delivered-retired", "Take with retirement delivered tradable %s retired %s of %s, want retired %s", ref.RatString(dt), ref.RatString(dr), dn, ref.RatString(a))
			}
		} else if dt.Cmp(a) != 0 || dr.Sign() != 0 {
			w.Violation("C11", "take-not-delivered-tradable", "Take without retirement delivered tradable %s retired %s of %s, want tradable %s", ref.RatString(dt), ref.RatString(dr), dn, ref.RatString(a))
		}
	}
	if len(resp.Credits) >= 2 && outOfOrder {
		m.outOfOrderTake = true
	}
}

// batchStart is the start date of the BATCH (the Batch table is the source of truth;
// the copy kept in the basket balance row is only an index helper).
func batchStart(s *snap.Snap, bb *basketapi.BasketBalance) time.Time {
	if b := s.BatchByDenom(bb.BatchDenom); b != nil && b.StartDate != nil {
		return b.StartDate.AsTime()
	}
	return bb.BatchStartDate.AsTime()
}

// checkBalanceDates: the start date copied into every basket balance row equals the batch's.
func (m *C11) checkBalanceDates(w *eng.World, s *snap.Snap, where string) {
	for _, bb := range s.BasketBalances {
		b := s.BatchByDenom(bb.BatchDenom)
		if b == nil || b.StartDate == nil {
			continue
		}
		if bb.BatchStartDate == nil || !bb.BatchStartDate.AsTime().Equal(b.StartDate.AsTime()) {
			w.Violation("C11", "basket-balance-start-date-differs-from-batch", "%s: basket %d holds %s with recorded start date %v, the batch starts %v (oldest-first order is taken from the recorded date)", where, bb.BasketId, bb.BatchDenom, bb.BatchStartDate, b.StartDate.AsTime())
		}
	}
}

func (m *C11) Finish(*eng.World) bool { return m.boundaryPut || m.outOfOrderTake }

// spelledDigits counts the digits of the mantissa of a decimal string as written (leading zeros
// dropped, trailing zeros kept): the size of the coefficient the chain's decimal parser builds.
func spelledDigits(a string) int {
	if i := strings.IndexAny(a, "eE"); i >= 0 {
		a = a[:i]
	}
	n, lead := 0, true
	for _, ch := range a {
		if ch < '0' || ch > '9' {
			continue
		}
		if lead && ch == '0' {
			continue
		}
		lead = false
		n++
	}
	return n
}
