package mon

import (
	basetypes "github.com/regen-network/regen-ledger/x/ecocredit/v3/base/types/v1"

	"verif/eng"
	"verif/ref"
	"verif/snap"
)

// C02 — issuance accounting against a ghost ledger of issued amounts.
type C02 struct {
	eng.BaseMonitor
	issued   map[uint64]*rat
	wasOpen  map[uint64]bool
	sealedAt map[uint64]*rat
}

func (*C02) Property() string { return "C02" }

func (m *C02) Init(w *eng.World) {
	m.issued, m.wasOpen, m.sealedAt = map[uint64]*rat{}, map[uint64]bool{}, map[uint64]*rat{}
	for _, b := range w.S.Batches {
		tot := zero()
		if s := w.S.SupplyByKey(b.Key); s != nil {
			tot = add(add(ref.MustRat(s.TradableAmount), ref.MustRat(s.RetiredAmount)), ref.MustRat(s.CancelledAmount))
		}
		m.issued[b.Key] = tot
		m.wasOpen[b.Key] = b.Open
		if !b.Open {
			m.sealedAt[b.Key] = tot
		}
	}
}

func sumIssuance(is []*basetypes.BatchIssuance) *rat {
	tot := zero()
	for _, i := range is {
		if i.TradableAmount != "" {
			tot.Add(tot, ref.MustRat(i.TradableAmount))
		}
		if i.RetiredAmount != "" {
			tot.Add(tot, ref.MustRat(i.RetiredAmount))
		}
	}
	return tot
}

func (m *C02) AfterMsg(w *eng.World, st *eng.MsgStep) {
	if !st.Res.OK {
		return
	}
	switch msg := st.Msg.(type) {
	case *basetypes.MsgCreateBatch:
		resp, _ := st.Res.RespMsg.(*basetypes.MsgCreateBatchResponse)
		if resp == nil {
			w.Violation("C02", "no-response", "accepted CreateBatch without a response")
			return
		}
		b := st.Post.BatchByDenom(resp.BatchDenom)
		if b == nil {
			w.Violation("C02", "created-batch-missing", "CreateBatch reported %s which is not in state", resp.BatchDenom)
			return
		}
		if _, dup := m.issued[b.Key]; dup {
			w.Violation("C02", "batch-key-reused", "CreateBatch reused batch key %d", b.Key)
		}
		m.issued[b.Key] = sumIssuance(msg.Issuance)
		m.wasOpen[b.Key] = b.Open
	case *basetypes.MsgMintBatchCredits:
		b := st.Pre.BatchByDenom(msg.BatchDenom)
		if b == nil {
			w.Violation("C02", "mint-unknown-batch", "accepted mint into unknown batch %s", msg.BatchDenom)
			return
		}
		if !b.Open {
			w.Violation("C02", "mint-into-sealed", "accepted MintBatchCredits into sealed batch %s", b.Denom)
		}
		m.issued[b.Key] = add(m.issued[b.Key], sumIssuance(msg.Issuance))
	case *basetypes.MsgBridgeReceive:
		resp, _ := st.Res.RespMsg.(*basetypes.MsgBridgeReceiveResponse)
		if resp == nil {
			w.Violation("C02", "no-response", "accepted BridgeReceive without a response")
			return
		}
		b := st.Post.BatchByDenom(resp.BatchDenom)
		if b == nil {
			w.Violation("C02", "created-batch-missing", "BridgeReceive reported %s which is not in state", resp.BatchDenom)
			return
		}
		if pre := st.Pre.BatchByKey(b.Key); pre != nil && !pre.Open {
			w.Violation("C02", "mint-into-sealed", "accepted BridgeReceive minted into sealed batch %s", b.Denom)
		}
		if m.issued[b.Key] == nil {
			m.issued[b.Key] = zero()
			m.wasOpen[b.Key] = b.Open
		}
		m.issued[b.Key] = add(m.issued[b.Key], ref.MustRat(msg.Batch.Amount))
	}
	m.check(w, st.Post, "msg "+st.Kind)
}

func (m *C02) AfterBlock(w *eng.World, st *eng.BlockStep) { m.check(w, st.Post, "block") }

func (m *C02) check(w *eng.World, s *snap.Snap, where string) {
	for _, b := range s.Batches {
		sup := s.SupplyByKey(b.Key)
		tot := zero()
		if sup != nil {
			tot = add(add(ref.MustRat(sup.TradableAmount), ref.MustRat(sup.RetiredAmount)), ref.MustRat(sup.CancelledAmount))
		}
		want, ok := m.issued[b.Key]
		if !ok {
			w.Violation("C02", "batch-without-issuance", "%s: batch %s appeared without an accepted issuing message", where, b.Denom)
			continue
		}
		if tot.Cmp(want) != 0 {
			w.Violation("C02", "total-differs-from-issued", "%s: batch %s tradable+retired+cancelled = %s but issued = %s", where, b.Denom, ref.RatString(tot), ref.RatString(want))
		}
		if b.Open && !m.wasOpen[b.Key] {
			w.Violation("C02", "sealed-batch-reopened", "%s: batch %s went from sealed to open", where, b.Denom)
		}
		if !b.Open {
			if at, sealed := m.sealedAt[b.Key]; sealed {
				if at.Cmp(tot) != 0 {
					w.Violation("C02", "sealed-total-changed", "%s: sealed batch %s total changed %s -> %s", where, b.Denom, ref.RatString(at), ref.RatString(tot))
				}
			} else {
				m.sealedAt[b.Key] = tot
			}
		}
		m.wasOpen[b.Key] = b.Open
	}
	if len(s.Batches) < len(m.issued) {
		w.Violation("C02", "batch-disappeared", "%s: %d batches in state, %d known", where, len(s.Batches), len(m.issued))
	}
}

func (m *C02) Finish(w *eng.World) bool {
	routes := 0
	for _, k := range []string{"retire", "cancel", "bridge", "take", "buy", "send"} {
		if w.Accepted[k] > 0 {
			routes++
		}
	}
	return (w.Accepted["mint"] > 0 || w.Accepted["bridgeReceive"] > 0) && routes >= 2 && w.Accepted["seal"] > 0
}
