package mon

import (
	"fmt"
	"time"

	marketapi "github.com/regen-network/regen-ledger/api/v2/regen/ecocredit/marketplace/v1"
	markettypes "github.com/regen-network/regen-ledger/x/ecocredit/v3/marketplace/types/v1"
	"google.golang.org/protobuf/proto"

	"verif/eng"
	"verif/ref"
)

// C12 — expiry at block start; BeginBlock never fails.
type C12 struct {
	eng.BaseMonitor
	nt bool
	// stated[id] is the expiration the seller stated for the order (nil = none), taken
	// from accepted Sell / UpdateSellOrders messages, not from stored state
	stated map[uint64]*time.Time
}

func (m *C12) Init(w *eng.World) {
	m.stated = map[uint64]*time.Time{}
	for _, o := range w.S.SellOrders {
		m.stated[o.Id] = expOf(o)
	}
}

func expOf(o *marketapi.SellOrder) *time.Time {
	if o.Expiration == nil {
		return nil
	}
	t := o.Expiration.AsTime()
	return &t
}

func sameTime(a, b *time.Time) bool {
	if a == nil || b == nil {
		return a == nil && b == nil
	}
	return a.Equal(*b)
}

func (*C12) Property() string { return "C12" }

func (m *C12) AfterBlock(w *eng.World, st *eng.BlockStep) {
	if st.Panic != nil {
		w.Violation("C12", "beginblock-panic", "BeginBlock at %s panicked: %v", st.Post.Time, st.Panic)
		return
	}
	T := st.Post.Time
	for _, o := range st.Pre.SellOrders {
		if e, known := m.stated[o.Id]; known && e != nil && !e.After(T) && st.Post.OrderByID(o.Id) != nil {
			w.Violation("C12", "order-outlives-stated-expiration", "order %d was given expiration %s by its seller and still exists after BeginBlock at %s (stored expiration %v)", o.Id, e, T, o.Expiration)
		}
	}
	removed := map[string]*rat{}
	removedBySeller := map[string]int{}
	for _, o := range st.Pre.SellOrders {
		po := st.Post.OrderByID(o.Id)
		expired := o.Expiration != nil && !o.Expiration.AsTime().After(T)
		switch {
		case expired && po != nil:
			w.Violation("C12", "expired-order-survives", "order %d with expiration %s still exists after BeginBlock at %s", o.Id, o.Expiration.AsTime(), T)
		case !expired && po == nil:
			w.Violation("C12", "live-order-removed", "order %d (expiration %v) was removed by BeginBlock at %s", o.Id, o.Expiration, T)
		case !expired && !proto.Equal(o, po):
			w.Violation("C12", "live-order-modified", "order %d (expiration %v) was modified by BeginBlock at %s", o.Id, o.Expiration, T)
		case expired:
			k := balKey(o.Seller, o.BatchKey)
			if removed[k] == nil {
				removed[k] = zero()
			}
			removed[k].Add(removed[k], ref.MustRat(o.Quantity))
			removedBySeller[k]++
			if removedBySeller[k] >= 2 || o.Expiration.AsTime().Equal(T) {
				m.nt = true
			}
		}
	}
	for _, o := range st.Post.SellOrders {
		if st.Pre.OrderByID(o.Id) == nil {
			w.Violation("C12", "order-created-by-block", "order %d appeared during BeginBlock", o.Id)
		}
	}
	// escrow -> tradable, per (seller, batch); every other balance row unchanged
	preRows := map[string][3]*rat{}
	for _, b := range st.Pre.Balances {
		preRows[balKey(b.Address, b.BatchKey)] = [3]*rat{ref.MustRat(b.TradableAmount), ref.MustRat(b.RetiredAmount), ref.MustRat(b.EscrowedAmount)}
	}
	for _, b := range st.Post.Balances {
		k := balKey(b.Address, b.BatchKey)
		p, ok := preRows[k]
		if !ok {
			w.Violation("C12", "balance-row-created-by-block", "balance row %s appeared during BeginBlock", k)
			continue
		}
		delete(preRows, k)
		mv := removed[k]
		if mv == nil {
			mv = zero()
		}
		t, r, e := ref.MustRat(b.TradableAmount), ref.MustRat(b.RetiredAmount), ref.MustRat(b.EscrowedAmount)
		if sub(t, p[0]).Cmp(mv) != 0 || sub(p[2], e).Cmp(mv) != 0 || r.Cmp(p[1]) != 0 {
			w.Violation("C12", "expiry-refund-wrong", "BeginBlock at %s: row %s went tradable %s->%s escrowed %s->%s retired %s->%s but expired orders sum to %s",
				T, k, ref.RatString(p[0]), ref.RatString(t), ref.RatString(p[2]), ref.RatString(e), ref.RatString(p[1]), ref.RatString(r), ref.RatString(mv))
		}
	}
	for k := range preRows {
		w.Violation("C12", "balance-row-deleted-by-block", "balance row %s disappeared during BeginBlock", k)
	}
	// nothing else may change in a block
	d := snapDiffTables(st)
	for _, t := range d {
		if t != "regen.ecocredit.marketplace.v1.SellOrder" && t != "regen.ecocredit.v1.BatchBalance" {
			w.Violation("C12", "block-touched-other-table", "BeginBlock changed table %s", t)
		}
	}
}

func snapDiffTables(st *eng.BlockStep) []string {
	var out []string
	for t, rows := range st.Post.Rows {
		pre := st.Pre.Rows[t]
		if len(pre) != len(rows) {
			out = append(out, t)
			continue
		}
		for k, v := range rows {
			if pv, ok := pre[k]; !ok || !proto.Equal(pv, v) {
				out = append(out, t)
				break
			}
		}
	}
	return out
}

func (m *C12) AfterMsg(w *eng.World, st *eng.MsgStep) {
	if !st.Res.OK {
		return
	}
	switch msg := st.Msg.(type) {
	case *markettypes.MsgSell:
		if resp, ok := st.Res.RespMsg.(*markettypes.MsgSellResponse); ok && len(resp.SellOrderIds) == len(msg.Orders) {
			for i, id := range resp.SellOrderIds {
				m.stated[id] = msg.Orders[i].Expiration
			}
		}
	case *markettypes.MsgUpdateSellOrders:
		for _, u := range msg.Updates {
			if u.NewExpiration != nil {
				m.stated[u.SellOrderId] = u.NewExpiration
			}
		}
	}
	// the stored expiration of every open order is the one its seller stated
	for _, o := range st.Post.SellOrders {
		if e, known := m.stated[o.Id]; known && !sameTime(e, expOf(o)) {
			w.Violation("C12", "stored-expiration-differs-from-stated", "after %s order %d has stored expiration %v but its seller stated %v", st.Kind, o.Id, expOf(o), e)
		}
	}
	if msg, ok := st.Msg.(*markettypes.MsgBuyDirect); ok {
		for _, o := range msg.Orders {
			var so *marketapi.SellOrder = st.Pre.OrderByID(o.SellOrderId)
			if so == nil {
				continue // filled earlier in the same message, or C07's business
			}
			if so.Expiration != nil && !so.Expiration.AsTime().After(st.Pre.Time) {
				w.Violation("C12", "expired-order-bought", "accepted BuyDirect of order %d whose expiration %s is not after block time %s", so.Id, so.Expiration.AsTime(), st.Pre.Time)
			}
		}
	}
}

func (m *C12) Finish(*eng.World) bool { return m.nt }

var _ = fmt.Sprintf
