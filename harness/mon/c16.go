package mon

import (
	"bytes"
	"fmt"

	sdk "github.com/cosmos/cosmos-sdk/types"
	gogotypes "github.com/cosmos/gogoproto/types"

	"google.golang.org/protobuf/proto"

	"github.com/regen-network/regen-ledger/x/data/v3"

	"verif/eng"
	"verif/snap"
)

// C16 — anchors, attestations and registrations are permanent and collision-proof.
type C16 struct {
	eng.BaseMonitor
	idOf       map[string]string // iri -> id (hex)
	anchorAt   map[string]int64  // id -> unix nanos
	anchorBlk  map[string]int64  // id -> height of first anchoring
	attestAt   map[string]int64  // id|attestor -> unix nanos
	reanchored bool
	minLen     int
}

func (*C16) Property() string { return "C16" }

func (m *C16) Init(w *eng.World) {
	m.idOf, m.anchorAt, m.attestAt, m.anchorBlk = map[string]string{}, map[string]int64{}, map[string]int64{}, map[string]int64{}
	m.minLen = 4
	if w.Trace.Genesis.Hasher.MinLen > 0 {
		m.minLen = w.Trace.Genesis.Hasher.MinLen
	}
	m.check(w, w.S, w.S, "genesis", 0)
}

func hx(b []byte) string { return fmt.Sprintf("%x", b) }

func (m *C16) check(w *eng.World, pre, post *snap.Snap, where string, blockNanos int64) {
	ids := map[string]string{}
	seenIRI := map[string]bool{}
	for _, d := range post.DataIDs {
		id := hx(d.Id)
		if other, dup := ids[id]; dup {
			w.Violation("C16", "two-iris-one-id", "%s: id %s maps to both %s and %s", where, id, other, d.Iri)
		}
		ids[id] = d.Iri
		if seenIRI[d.Iri] {
			w.Violation("C16", "one-iri-two-ids", "%s: iri %s has two ids", where, d.Iri)
		}
		seenIRI[d.Iri] = true
		if old, known := m.idOf[d.Iri]; known && old != id {
			w.Violation("C16", "id-of-iri-changed", "%s: iri %s had id %s, now %s", where, d.Iri, old, id)
		}
		m.idOf[d.Iri] = id
	}
	for iri, id := range m.idOf {
		if ids[id] != iri {
			w.Violation("C16", "data-id-lost", "%s: iri %s (id %s) is no longer in the DataID table (now %q)", where, iri, id, ids[id])
		}
	}
	anchors := map[string]int64{}
	for _, a := range post.DataAnchors {
		id := hx(a.Id)
		if _, ok := ids[id]; !ok {
			w.Violation("C16", "anchor-without-id", "%s: anchor row for unknown id %s", where, id)
		}
		ts := a.Timestamp.AsTime().UnixNano()
		anchors[id] = ts
		if old, known := m.anchorAt[id]; known {
			if old != ts {
				w.Violation("C16", "anchor-timestamp-changed", "%s: anchor timestamp of id %s changed %d -> %d", where, id, old, ts)
			}
		} else {
			if where != "genesis" && ts != blockNanos {
				w.Violation("C16", "anchor-timestamp-not-block-time", "%s: new anchor of id %s has timestamp %d, block time is %d", where, id, ts, blockNanos)
			}
			m.anchorAt[id] = ts
			m.anchorBlk[id] = post.Height
		}
	}
	for id := range m.anchorAt {
		if _, ok := anchors[id]; !ok {
			w.Violation("C16", "anchor-lost", "%s: anchor of id %s disappeared", where, id)
		}
	}
	atts := map[string]int64{}
	for _, a := range post.DataAttestors {
		k := hx(a.Id) + "|" + hx(a.Attestor)
		if _, ok := anchors[hx(a.Id)]; !ok {
			w.Violation("C16", "attestation-without-anchor", "%s: attestation %s without anchor", where, k)
		}
		ts := a.Timestamp.AsTime().UnixNano()
		atts[k] = ts
		if old, known := m.attestAt[k]; known {
			if old != ts {
				w.Violation("C16", "attestation-timestamp-changed", "%s: attestation %s timestamp changed %d -> %d", where, k, old, ts)
			}
		} else {
			if where != "genesis" && ts != blockNanos {
				w.Violation("C16", "attestation-timestamp-not-block-time", "%s: new attestation %s has timestamp %d, block time %d", where, k, ts, blockNanos)
			}
			m.attestAt[k] = ts
		}
	}
	for k := range m.attestAt {
		if _, ok := atts[k]; !ok {
			w.Violation("C16", "attestation-lost", "%s: attestation %s disappeared", where, k)
		}
	}
	// resolvers and registrations are never lost or changed
	for t := range map[string]bool{"regen.data.v1.Resolver": true, "regen.data.v1.DataResolver": true} {
		for pk, row := range pre.Rows[t] {
			if nr, ok := post.Rows[t][pk]; !ok || !proto.Equal(nr, row) {
				w.Violation("C16", "registration-lost-or-changed", "%s: row %s of %s changed or disappeared", where, pk, t)
			}
		}
	}
	for _, dr := range post.DataResolvers {
		if _, ok := ids[hx(dr.Id)]; !ok {
			w.Violation("C16", "registration-without-id", "%s: data resolver row for unknown id %x", where, dr.Id)
		}
	}
}

func tsNanos(t *gogotypes.Timestamp) int64 {
	if t == nil {
		return -1
	}
	return t.Seconds*1_000_000_000 + int64(t.Nanos)
}

func (m *C16) AfterMsg(w *eng.World, st *eng.MsgStep) {
	if !st.Res.OK {
		return
	}
	bt := st.Pre.Time.UnixNano()
	switch msg := st.Msg.(type) {
	case *data.MsgAnchor:
		iri, err := msg.ContentHash.ToIRI()
		if err != nil {
			w.Violation("C16", "anchored-unencodable-hash", "accepted Anchor of a hash without IRI: %v", err)
			break
		}
		if id, known := m.idOf[iri]; known {
			if h := m.anchorBlk[id]; h != 0 && h < st.Pre.Height {
				m.reanchored = true
			}
		}
		resp, _ := st.Res.RespMsg.(*data.MsgAnchorResponse)
		if resp == nil || resp.Iri != iri {
			w.Violation("C16", "anchor-response-iri", "Anchor response %v, want iri %s", resp, iri)
			break
		}
		m.check(w, st.Pre, st.Post, "msg anchor", bt)
		if want := m.anchorAt[m.idOf[iri]]; tsNanos(resp.Timestamp) != want {
			w.Violation("C16", "anchor-response-timestamp", "Anchor response timestamp %d, first anchoring was at %d", tsNanos(resp.Timestamp), want)
		}
		return
	case *data.MsgAttest:
		resp, _ := st.Res.RespMsg.(*data.MsgAttestResponse)
		att, _ := sdk.AccAddressFromBech32(msg.Attestor)
		var wantNew []string
		seen := map[string]bool{}
		for _, ch := range msg.ContentHashes {
			iri, err := ch.ToIRI()
			if err != nil {
				continue
			}
			k := ""
			if id, ok := m.idOf[iri]; ok {
				k = id + "|" + hx(att)
			}
			if _, had := m.attestAt[k]; (k == "" || !had) && !seen[iri] {
				wantNew = append(wantNew, iri)
			}
			seen[iri] = true
		}
		if resp == nil || fmt.Sprint(resp.Iris) != fmt.Sprint(wantNew) || tsNanos(resp.Timestamp) != bt {
			w.Violation("C16", "attest-response-wrong", "Attest response %v, want new iris %v at %d", resp, wantNew, bt)
		}
	case *data.MsgRegisterResolver:
		signer, _ := sdk.AccAddressFromBech32(msg.Signer)
		for _, r := range st.Pre.Resolvers {
			if r.Id == msg.ResolverId && len(r.Manager) != 0 && !bytes.Equal(r.Manager, signer) {
				w.Violation("C16", "registered-by-non-manager", "RegisterResolver to private resolver %d accepted from %s", r.Id, msg.Signer)
			}
		}
		for _, ch := range msg.ContentHashes {
			iri, err := ch.ToIRI()
			if err != nil {
				continue
			}
			found := false
			for _, d := range st.Post.DataIDs {
				if d.Iri == iri {
					for _, dr := range st.Post.DataResolvers {
						if bytes.Equal(dr.Id, d.Id) && dr.ResolverId == msg.ResolverId {
							found = true
						}
					}
				}
			}
			if !found {
				w.Violation("C16", "registration-not-recorded", "RegisterResolver accepted but %s is not registered to resolver %d", iri, msg.ResolverId)
			}
		}
	}
	m.check(w, st.Pre, st.Post, "msg "+st.Kind, bt)
}

func (m *C16) AfterBlock(w *eng.World, st *eng.BlockStep) {
	m.check(w, st.Pre, st.Post, "block", st.Post.Time.UnixNano())
	d := snapDiffTables(st)
	for _, t := range d {
		if len(t) > 10 && t[:10] == "regen.data" {
			w.Violation("C16", "block-changed-data-table", "BeginBlock changed %s", t)
		}
	}
}

func (m *C16) Finish(w *eng.World) bool {
	groups := map[string]int{}
	shared := false
	for _, d := range w.S.DataIDs {
		n := m.minLen
		if n > len(d.Id) {
			n = len(d.Id)
		}
		groups[hx(d.Id[:n])]++
		if groups[hx(d.Id[:n])] >= 3 {
			shared = true
		}
	}
	if shared {
		w.Flags["3-iris-share-probe-prefix"] = true
	}
	return shared && m.reanchored
}
