package mon

import (
	"fmt"
	"math/big"

	sdk "github.com/cosmos/cosmos-sdk/types"

	marketapi "github.com/regen-network/regen-ledger/api/v2/regen/ecocredit/marketplace/v1"
	markettypes "github.com/regen-network/regen-ledger/x/ecocredit/v3/marketplace/types/v1"
	"google.golang.org/protobuf/proto"

	"verif/chain"
	"verif/eng"
	"verif/ref"
)

// C07 — BuyDirect settles exactly (reference model in exact rationals).
type C07 struct {
	eng.BaseMonitor
	nt bool
}

func (*C07) Property() string { return "C07" }

func absRat(x *rat) *rat { return new(big.Rat).Abs(x) }

func (m *C07) AfterMsg(w *eng.World, st *eng.MsgStep) {
	msg, ok := st.Msg.(*markettypes.MsgBuyDirect)
	if !ok || !st.Res.OK {
		return
	}
	pre, post := st.Pre, st.Post
	buyer, _ := sdk.AccAddressFromBech32(msg.Buyer)
	buyerS := buyer.String()
	pool := chain.FeePoolAddr().String()
	br, sr := zero(), zero()
	if len(pre.FeeParams) > 0 {
		var ok1, ok2 bool
		br, ok1 = ref.Rate(pre.FeeParams[0].BuyerPercentageFee)
		sr, ok2 = ref.Rate(pre.FeeParams[0].SellerPercentageFee)
		if !ok1 || !ok2 {
			w.Violation("C07", "unparsable-fee-rate", "stored fee params %v are not decimals", pre.FeeParams[0])
			return
		}
	}
	remaining := map[uint64]*rat{}
	type agg struct {
		n     int
		exact *rat
	}
	sellerPay := map[string]*agg{} // seller|denom
	poolFee := map[string]*agg{}   // denom
	total := map[string]*agg{}     // denom -> exact total cost to the buyer
	getAgg := func(mp map[string]*agg, k string) *agg {
		if mp[k] == nil {
			mp[k] = &agg{exact: zero()}
		}
		return mp[k]
	}
	creditTrad := map[uint64]*rat{} // batch -> tradable delivered to buyer
	creditRet := map[uint64]*rat{}  // batch -> retired delivered to buyer
	escrowOut := map[string]*rat{}  // balKey(seller,batch) -> escrow decrease
	touchedOrders := map[uint64]bool{}
	wide := false
	for i, o := range msg.Orders {
		so := pre.OrderByID(o.SellOrderId)
		if so == nil {
			w.Violation("C07", "bought-nonexistent-order", "accepted BuyDirect order[%d] names sell order %d which is not in the pre-state", i, o.SellOrderId)
			return
		}
		touchedOrders[so.Id] = true
		mk := pre.MarketByID(so.MarketId)
		if mk == nil {
			w.Violation("C07", "order-without-market", "sell order %d has no market", so.Id)
			return
		}
		if _, ok := remaining[so.Id]; !ok {
			remaining[so.Id] = ref.MustRat(so.Quantity)
		}
		q, ok := ref.ParseRat(o.Quantity)
		if !ok || q.Sign() <= 0 {
			w.Violation("C07", "bought-nonpositive-quantity", "accepted BuyDirect order[%d] quantity %q", i, o.Quantity)
			return
		}
		if q.Cmp(remaining[so.Id]) > 0 {
			w.Violation("C07", "bought-more-than-offered", "accepted BuyDirect order[%d] buys %s of order %d which has %s left", i, o.Quantity, so.Id, ref.RatString(remaining[so.Id]))
		}
		remaining[so.Id] = sub(remaining[so.Id], q)
		if o.BidPrice.Denom != mk.BankDenom {
			w.Violation("C07", "bid-denom-differs", "accepted BuyDirect order[%d] bids in %s for an order asking in %s", i, o.BidPrice.Denom, mk.BankDenom)
		}
		ask, _ := new(big.Int).SetString(so.AskAmount, 10)
		if ask == nil {
			w.Violation("C07", "ask-not-integer", "sell order %d ask %q", so.Id, so.AskAmount)
			return
		}
		if o.BidPrice.Amount.BigInt().Cmp(ask) < 0 {
			w.Violation("C07", "bid-below-ask", "accepted BuyDirect order[%d] bids %s below ask %s", i, o.BidPrice.Amount, ask)
		}
		if o.DisableAutoRetire && !so.DisableAutoRetire {
			w.Violation("C07", "auto-retire-disabled-against-order", "accepted BuyDirect order[%d] disables auto-retire on order %d which requires it", i, so.Id)
		}
		s := ref.Settle(q, ask, br, sr)
		for _, x := range []*rat{s.SubTotal, s.BuyerFee, s.SellerFee, s.Total, s.SellerPay} {
			if d := ref.SigDigits(x); d > 34 || d < 0 {
				wide = true
			}
		}
		// max fee must cover floor(buyer fee)
		maxFee := new(big.Int)
		if o.MaxFeeAmount != nil {
			maxFee = o.MaxFeeAmount.Amount.BigInt()
			if o.MaxFeeAmount.Denom != mk.BankDenom && ref.Floor(s.BuyerFee).Sign() > 0 {
				w.Violation("C07", "max-fee-other-denom", "accepted BuyDirect order[%d] states max fee in %s for a market in %s", i, o.MaxFeeAmount.Denom, mk.BankDenom)
			}
		}
		if maxFee.Cmp(ref.Floor(s.BuyerFee)) < 0 {
			key := "max-fee-below-buyer-fee"
			if wide {
				key += "/>34-digits"
			}
			w.Violation("C07", key, "accepted BuyDirect order[%d] with max fee %s but buyer fee is %s", i, maxFee, ref.RatString(s.BuyerFee))
		}
		sk := sdk.AccAddress(so.Seller).String() + "|" + mk.BankDenom
		a := getAgg(sellerPay, sk)
		a.n++
		a.exact.Add(a.exact, s.SellerPay)
		a = getAgg(poolFee, mk.BankDenom)
		a.n++
		a.exact.Add(a.exact, s.PoolFee)
		a = getAgg(total, mk.BankDenom)
		a.n++
		a.exact.Add(a.exact, s.Total)
		mp := creditRet
		if o.DisableAutoRetire {
			mp = creditTrad
		}
		if mp[so.BatchKey] == nil {
			mp[so.BatchKey] = zero()
		}
		mp[so.BatchKey].Add(mp[so.BatchKey], q)
		ek := balKey(so.Seller, so.BatchKey)
		if escrowOut[ek] == nil {
			escrowOut[ek] = zero()
		}
		escrowOut[ek].Add(escrowOut[ek], q)
		if !s.SubTotal.IsInt() || s.PoolFee.Sign() > 0 {
			m.nt = true
		}
	}
	sfx := ""
	if wide {
		sfx = "/>34-digits"
	}
	if sr.Cmp(big.NewRat(1, 1)) > 0 {
		sfx = "/seller-fee-rate>1" // the seller payment would be negative (root cause: C18 finding F9)
	}

	// ---- orders ----
	for id, left := range remaining {
		po := post.OrderByID(id)
		switch {
		case left.Sign() == 0 && po != nil:
			w.Violation("C07", "filled-order-not-removed", "order %d was bought out but still exists with quantity %s", id, po.Quantity)
		case left.Sign() > 0 && po == nil:
			w.Violation("C07", "partly-filled-order-removed", "order %d should have %s left but was removed", id, ref.RatString(left))
		case left.Sign() > 0 && ref.MustRat(po.Quantity).Cmp(left) != 0:
			w.Violation("C07", "order-quantity-wrong", "order %d has %s left, want %s", id, po.Quantity, ref.RatString(left))
		case left.Sign() > 0:
			// a partial fill changes nothing but the quantity
			x := proto.Clone(pre.OrderByID(id)).(*marketapi.SellOrder)
			x.Quantity = po.Quantity
			if !proto.Equal(x, po) {
				w.Violation("C07", "partial-fill-changed-order", "partial fill of order %d changed more than its quantity: %v -> %v", id, pre.OrderByID(id), po)
			}
		}
	}
	// ---- credits ----
	batches := map[uint64]bool{}
	for k := range creditTrad {
		batches[k] = true
	}
	for k := range creditRet {
		batches[k] = true
	}
	allowedBalRows := map[string]bool{}
	for k := range batches {
		t0, r0, e0 := pre.Balance(buyer, k)
		t1, r1, e1 := post.Balance(buyer, k)
		wt, wr := r(creditTrad, k), r(creditRet, k)
		// the buyer may also be a seller of another order in the same batch? buyer != seller is enforced, so escrow unchanged
		if sub(t1, t0).Cmp(wt) != 0 || sub(r1, r0).Cmp(wr) != 0 || e1.Cmp(e0) != 0 {
			w.Violation("C07", "buyer-credits-wrong", "buyer got tradable %s retired %s (escrow %s) in batch key %d, want tradable %s retired %s", ref.RatString(sub(t1, t0)), ref.RatString(sub(r1, r0)), ref.RatString(sub(e1, e0)), k, ref.RatString(wt), ref.RatString(wr))
		}
		allowedBalRows[balKey(buyer, k)] = true
		s0, s1 := pre.SupplyByKey(k), post.SupplyByKey(k)
		if s0 != nil && s1 != nil {
			if sub(ref.MustRat(s1.RetiredAmount), ref.MustRat(s0.RetiredAmount)).Cmp(wr) != 0 ||
				sub(ref.MustRat(s0.TradableAmount), ref.MustRat(s1.TradableAmount)).Cmp(wr) != 0 ||
				s0.CancelledAmount != s1.CancelledAmount {
				w.Violation("C07", "supply-after-buy-wrong", "batch key %d supply went %v -> %v, auto-retired quantity %s", k, s0, s1, ref.RatString(wr))
			}
		}
	}
	for ek, q := range escrowOut {
		allowedBalRows[ek] = true
		var t0, r0, e0, t1, r1, e1 *rat
		for _, b := range pre.Balances {
			if balKey(b.Address, b.BatchKey) == ek {
				t0, r0, e0 = ref.MustRat(b.TradableAmount), ref.MustRat(b.RetiredAmount), ref.MustRat(b.EscrowedAmount)
			}
		}
		for _, b := range post.Balances {
			if balKey(b.Address, b.BatchKey) == ek {
				t1, r1, e1 = ref.MustRat(b.TradableAmount), ref.MustRat(b.RetiredAmount), ref.MustRat(b.EscrowedAmount)
			}
		}
		if t0 == nil || t1 == nil {
			w.Violation("C07", "seller-balance-row-missing", "seller balance row %s missing", ek)
			continue
		}
		if sub(e0, e1).Cmp(q) != 0 || t0.Cmp(t1) != 0 || r0.Cmp(r1) != 0 {
			w.Violation("C07", "seller-escrow-wrong", "seller row %s: escrow %s -> %s tradable %s -> %s retired %s -> %s, sold %s", ek, ref.RatString(e0), ref.RatString(e1), ref.RatString(t0), ref.RatString(t1), ref.RatString(r0), ref.RatString(r1), ref.RatString(q))
		}
	}
	// ---- coins ----
	d := st.Diff()
	bankDelta := map[string]*big.Int{}
	for _, ch := range d.Bank {
		bankDelta[ch.Addr+"|"+ch.Denom] = ch.Delta
	}
	supplyDelta := map[string]*big.Int{}
	for _, ch := range d.Supply {
		supplyDelta[ch.Denom] = ch.Delta
	}
	get := func(mp map[string]*big.Int, k string) *big.Int {
		if mp[k] == nil {
			return new(big.Int)
		}
		return mp[k]
	}
	accounted := map[string]bool{}
	sellerCredits := map[string]*big.Int{} // denom -> sum
	for sk, a := range sellerPay {
		accounted[sk] = true
		got := get(bankDelta, sk)
		if absRat(sub(new(big.Rat).SetInt(got), a.exact)).Cmp(new(big.Rat).SetInt64(int64(a.n))) >= 0 {
			w.Violation("C07", "seller-payment-wrong"+sfx, "seller %s credited %s, exact quantity x ask - seller fee = %s (%d fills)", sk, got, ref.RatString(a.exact), a.n)
		}
		i := len(sk) - 1
		for sk[i] != '|' {
			i--
		}
		dn := sk[i+1:]
		if sellerCredits[dn] == nil {
			sellerCredits[dn] = new(big.Int)
		}
		sellerCredits[dn].Add(sellerCredits[dn], got)
	}
	for dn, a := range poolFee {
		var got *big.Int
		if dn == "uregen" {
			got = new(big.Int).Neg(get(supplyDelta, dn)) // burnt
			if get(bankDelta, pool+"|"+dn).Sign() != 0 {
				w.Violation("C07", "uregen-fee-not-burnt", "fee pool uregen balance changed by %s", get(bankDelta, pool+"|"+dn))
			}
		} else {
			got = get(bankDelta, pool+"|"+dn)
			if get(supplyDelta, dn).Sign() != 0 {
				w.Violation("C07", "supply-changed", "total supply of %s changed by %s in a BuyDirect", dn, get(supplyDelta, dn))
			}
		}
		accounted[pool+"|"+dn] = true
		if absRat(sub(new(big.Rat).SetInt(got), a.exact)).Cmp(new(big.Rat).SetInt64(int64(a.n))) >= 0 {
			w.Violation("C07", "fee-wrong"+sfx, "fee pool credited (or burnt) %s %s, exact buyer fee + seller fee = %s (%d fills)", got, dn, ref.RatString(a.exact), a.n)
		}
		debit := new(big.Int).Neg(get(bankDelta, buyerS+"|"+dn))
		accounted[buyerS+"|"+dn] = true
		sc := sellerCredits[dn]
		if sc == nil {
			sc = new(big.Int)
		}
		if debit.Cmp(new(big.Int).Add(sc, got)) != 0 {
			w.Violation("C07", "buyer-debit-not-sum", "buyer debited %s %s but sellers got %s and fees were %s", debit, dn, sc, got)
		}
		if new(big.Rat).SetInt(debit).Cmp(total[dn].exact) > 0 {
			w.Violation("C07", "buyer-overcharged"+sfx, "buyer debited %s %s, more than the exact total %s", debit, dn, ref.RatString(total[dn].exact))
		}
	}
	for k, v := range bankDelta {
		if !accounted[k] && v.Sign() != 0 {
			w.Violation("C07", "unrelated-balance-changed", "BuyDirect changed %s by %s", k, v)
		}
	}
	for dn, v := range supplyDelta {
		if dn != "uregen" && v.Sign() != 0 {
			w.Violation("C07", "supply-changed", "total supply of %s changed by %s in a BuyDirect", dn, v)
		}
	}
	// ---- frame over tables ----
	for _, rc := range d.Rows {
		switch rc.Table {
		case "regen.ecocredit.marketplace.v1.SellOrder":
			ok := false
			for id := range touchedOrders {
				if rc.PK == fmt.Sprintf("[%d]", id) {
					ok = true
				}
			}
			if !ok {
				w.Violation("C07", "unrelated-order-changed", "BuyDirect %s sell order %s", rc.Kind, rc.PK)
			}
		case "regen.ecocredit.v1.BatchBalance":
			// PK rendering is [hex(address) batchKey]
			ok := false
			for k := range allowedBalRows {
				var addrHex string
				var bk uint64
				fmt.Sscanf(k, "%s", &addrHex)
				i := len(k) - 1
				for k[i] != '/' {
					i--
				}
				addrHex = k[:i]
				fmt.Sscanf(k[i+1:], "%d", &bk)
				if rc.PK == fmt.Sprintf("[%s %d]", addrHex, bk) {
					ok = true
				}
			}
			if !ok {
				w.Violation("C07", "unrelated-balance-row-changed", "BuyDirect %s balance row %s", rc.Kind, rc.PK)
			}
		case "regen.ecocredit.v1.BatchSupply":
			ok := false
			for k := range creditRet {
				if rc.PK == fmt.Sprintf("[%d]", k) {
					ok = true
				}
			}
			if !ok {
				w.Violation("C07", "unrelated-supply-row-changed", "BuyDirect %s supply row %s", rc.Kind, rc.PK)
			}
		default:
			w.Violation("C07", "unrelated-table-changed", "BuyDirect %s row %s of %s", rc.Kind, rc.PK, rc.Table)
		}
	}
}

func (m *C07) Finish(*eng.World) bool { return m.nt }
