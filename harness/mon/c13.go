package mon

import (
	"fmt"
	"strings"

	sdk "github.com/cosmos/cosmos-sdk/types"

	basetypes "github.com/regen-network/regen-ledger/x/ecocredit/v3/base/types/v1"

	"verif/eng"
	"verif/ref"
	"verif/snap"
)

// C13 — bridge safety.
type C13 struct {
	eng.BaseMonitor
	origins     map[string]string // (class,id,source) -> entry point that issued it
	contracts   map[string]uint64 // (class,contract) -> batch key
	crossReplay bool
	bridged     bool
}

func (*C13) Property() string { return "C13" }

func okey(classKey uint64, id, source string) string {
	return fmt.Sprintf("%d\x00%s\x00%s", classKey, id, source)
}
func ckey(classKey uint64, contract string) string {
	return fmt.Sprintf("%d\x00%s", classKey, contract)
}

func (m *C13) Init(w *eng.World) {
	m.origins, m.contracts = map[string]string{}, map[string]uint64{}
	for _, o := range w.S.OriginTxs {
		m.origins[okey(o.ClassKey, o.Id, o.Source)] = "genesis"
	}
	for _, c := range w.S.Contracts {
		m.contracts[ckey(c.ClassKey, c.Contract)] = c.BatchKey
	}
}

func (m *C13) noteAttempt(kind string, classKey uint64, o *basetypes.OriginTx) {
	if o == nil {
		return
	}
	if by, ok := m.origins[okey(classKey, o.Id, o.Source)]; ok && by != kind {
		m.crossReplay = true
	}
}

func (m *C13) issue(w *eng.World, kind string, classKey uint64, o *basetypes.OriginTx) {
	if o == nil {
		return
	}
	k := okey(classKey, o.Id, o.Source)
	if by, dup := m.origins[k]; dup {
		w.Violation("C13", "origin-tx-issued-twice", "%s accepted for origin tx (id=%q source=%q) in class key %d which already issued credits through %s", kind, o.Id, o.Source, classKey, by)
	}
	m.origins[k] = kind
}

func (m *C13) AfterMsg(w *eng.World, st *eng.MsgStep) {
	pre, post := st.Pre, st.Post
	switch msg := st.Msg.(type) {
	case *basetypes.MsgCreateBatch:
		p := pre.ProjectByID(msg.ProjectId)
		if p == nil {
			break
		}
		m.noteAttempt("createBatch", p.ClassKey, msg.OriginTx)
		if st.Res.OK {
			m.issue(w, "createBatch", p.ClassKey, msg.OriginTx)
			// effect: a batch created with a contract is the one batch of that contract in its class
			if msg.OriginTx != nil && msg.OriginTx.Contract != "" {
				k := ckey(p.ClassKey, msg.OriginTx.Contract)
				if other, dup := m.contracts[k]; dup {
					w.Violation("C13", "contract-bound-twice", "CreateBatch accepted for contract %s which is already bound to batch key %d in class key %d", msg.OriginTx.Contract, other, p.ClassKey)
				}
				if resp, _ := st.Res.RespMsg.(*basetypes.MsgCreateBatchResponse); resp != nil {
					if b := post.BatchByDenom(resp.BatchDenom); b != nil {
						m.contracts[k] = b.Key
					}
				}
			}
		}
	case *basetypes.MsgMintBatchCredits:
		b := pre.BatchByDenom(msg.BatchDenom)
		if b == nil {
			break
		}
		c := pre.ClassOfBatch(b)
		if c == nil {
			break
		}
		m.noteAttempt("mint", c.Key, msg.OriginTx)
		if st.Res.OK {
			m.issue(w, "mint", c.Key, msg.OriginTx)
		}
	case *basetypes.MsgBridgeReceive:
		c := pre.ClassByID(msg.ClassId)
		if c == nil || msg.OriginTx == nil {
			if st.Res.OK {
				w.Violation("C13", "receive-unknown-class", "accepted BridgeReceive for unknown class %s", msg.ClassId)
			}
			break
		}
		m.noteAttempt("bridgeReceive", c.Key, msg.OriginTx)
		if !st.Res.OK {
			break
		}
		m.issue(w, "bridgeReceive", c.Key, msg.OriginTx)
		allowed := false
		for _, ch := range pre.BridgeChains {
			if ch.ChainName == strings.ToLower(msg.OriginTx.Source) {
				allowed = true
			}
		}
		if !allowed {
			w.Violation("C13", "receive-from-disallowed-source", "accepted BridgeReceive from source %q which is not an allowed chain", msg.OriginTx.Source)
		}
		resp, _ := st.Res.RespMsg.(*basetypes.MsgBridgeReceiveResponse)
		if resp == nil {
			w.Violation("C13", "no-response", "accepted BridgeReceive without response")
			break
		}
		b := post.BatchByDenom(resp.BatchDenom)
		if b == nil {
			w.Violation("C13", "receive-batch-missing", "BridgeReceive reports batch %s which does not exist", resp.BatchDenom)
			break
		}
		if bound, ok := m.contracts[ckey(c.Key, msg.OriginTx.Contract)]; ok {
			if bound != b.Key {
				w.Violation("C13", "contract-rebound", "contract %s of class %s is bound to batch key %d but this receipt minted into %s (key %d)", msg.OriginTx.Contract, c.Id, bound, b.Denom, b.Key)
			}
			if pre.BatchByKey(b.Key) == nil {
				w.Violation("C13", "bound-contract-created-new-batch", "receipt for bound contract %s created a new batch %s", msg.OriginTx.Contract, b.Denom)
			}
		} else {
			if pre.BatchByKey(b.Key) != nil {
				w.Violation("C13", "unbound-contract-minted-existing", "receipt for unbound contract %s minted into existing batch %s", msg.OriginTx.Contract, b.Denom)
			}
			// effect: the first receipt binds the contract to the batch it created
			m.contracts[ckey(c.Key, msg.OriginTx.Contract)] = b.Key
		}
		// the amount went to the recipient of that batch and nowhere else
		rc, _ := sdk.AccAddressFromBech32(msg.Batch.Recipient)
		t0, _, _ := pre.Balance(rc, b.Key)
		t1, _, _ := post.Balance(rc, b.Key)
		if sub(t1, t0).Cmp(ref.MustRat(msg.Batch.Amount)) != 0 {
			w.Violation("C13", "receive-amount-wrong", "BridgeReceive of %s credited the recipient %s in batch %s", msg.Batch.Amount, ref.RatString(sub(t1, t0)), b.Denom)
		}
	case *basetypes.MsgBridge:
		if !st.Res.OK {
			break
		}
		m.bridged = true
		allowed := false
		for _, ch := range pre.BridgeChains {
			if ch.ChainName == strings.ToLower(msg.Target) {
				allowed = true
			}
		}
		if !allowed {
			w.Violation("C13", "bridge-to-disallowed-target", "accepted Bridge to target %q which is not an allowed chain", msg.Target)
		}
		owner, _ := sdk.AccAddressFromBech32(msg.Owner)
		perBatch := map[uint64]*rat{}
		type want struct{ contract, amount, denom string }
		var wants []want
		for _, cr := range msg.Credits {
			b := pre.BatchByDenom(cr.BatchDenom)
			if b == nil {
				w.Violation("C13", "bridge-unknown-batch", "accepted Bridge of unknown batch %s", cr.BatchDenom)
				continue
			}
			contract := ""
			for _, bc := range pre.Contracts {
				if bc.BatchKey == b.Key {
					contract = bc.Contract
				}
			}
			if contract == "" {
				w.Violation("C13", "bridge-unbound-batch", "accepted Bridge of batch %s which has no bound contract", b.Denom)
			}
			if perBatch[b.Key] == nil {
				perBatch[b.Key] = zero()
			}
			perBatch[b.Key].Add(perBatch[b.Key], ref.MustRat(cr.Amount))
			wants = append(wants, want{contract, cr.Amount, cr.BatchDenom})
		}
		for k, amt := range perBatch {
			s0, s1 := pre.SupplyByKey(k), post.SupplyByKey(k)
			if s0 == nil || s1 == nil {
				continue
			}
			if sub(ref.MustRat(s1.CancelledAmount), ref.MustRat(s0.CancelledAmount)).Cmp(amt) != 0 {
				w.Violation("C13", "bridge-cancelled-wrong", "Bridge of %s from batch key %d raised cancelled supply %s -> %s", ref.RatString(amt), k, s0.CancelledAmount, s1.CancelledAmount)
			}
			t0, _, _ := pre.Balance(owner, k)
			t1, _, _ := post.Balance(owner, k)
			if sub(t0, t1).Cmp(amt) != 0 {
				w.Violation("C13", "bridge-debit-wrong", "Bridge of %s from batch key %d debited the owner %s", ref.RatString(amt), k, ref.RatString(sub(t0, t1)))
			}
		}
		var evs []*basetypes.EventBridge
		for _, e := range st.Res.Events {
			if e.Type != "regen.ecocredit.v1.EventBridge" {
				continue
			}
			pm, err := sdk.ParseTypedEvent(e)
			if err != nil {
				w.Violation("C13", "bridge-event-unparsable", "EventBridge cannot be parsed: %v", err)
				continue
			}
			if eb, ok := pm.(*basetypes.EventBridge); ok {
				evs = append(evs, eb)
			}
		}
		if len(evs) != len(wants) {
			w.Violation("C13", "bridge-event-count", "Bridge of %d credits emitted %d EventBridge", len(wants), len(evs))
			break
		}
		for i, wn := range wants {
			e := evs[i]
			if e.Contract != wn.contract || e.Amount != wn.amount || e.BatchDenom != wn.denom || e.Owner != msg.Owner || e.Recipient != msg.Recipient || e.Target != msg.Target {
				w.Violation("C13", "bridge-event-wrong", "EventBridge[%d] = %+v, want contract=%s amount=%s denom=%s owner=%s recipient=%s target=%s", i, e, wn.contract, wn.amount, wn.denom, msg.Owner, msg.Recipient, msg.Target)
			}
		}
	}
	if st.Res.OK {
		// the allowed-chain list is what governance set (names are stored lower-cased)
		switch msg := st.Msg.(type) {
		case *basetypes.MsgAddAllowedBridgeChain:
			if !hasChain(post, strings.ToLower(msg.ChainName)) {
				w.Violation("C13", "chain-not-added", "AddAllowedBridgeChain(%q) accepted but %q is not on the list", msg.ChainName, strings.ToLower(msg.ChainName))
			}
		case *basetypes.MsgRemoveAllowedBridgeChain:
			if hasChain(post, strings.ToLower(msg.ChainName)) {
				w.Violation("C13", "chain-not-removed", "RemoveAllowedBridgeChain(%q) accepted but the chain is still on the list", msg.ChainName)
			}
		default:
			if len(pre.BridgeChains) != len(post.BridgeChains) {
				w.Violation("C13", "chain-list-changed", "%s changed the allowed bridge chain list", st.Kind)
			}
		}
		m.checkTables(w, st)
	}
}

func hasChain(s *snap.Snap, name string) bool {
	for _, c := range s.BridgeChains {
		if c.ChainName == name {
			return true
		}
	}
	return false
}

func (m *C13) checkTables(w *eng.World, st *eng.MsgStep) {
	// (class, contract) -> batch is a function that only grows
	now := map[string]uint64{}
	for _, c := range st.Post.Contracts {
		k := ckey(c.ClassKey, c.Contract)
		if other, dup := now[k]; dup && other != c.BatchKey {
			w.Violation("C13", "contract-bound-twice", "contract %s in class key %d bound to batches %d and %d", c.Contract, c.ClassKey, other, c.BatchKey)
		}
		now[k] = c.BatchKey
	}
	// the stored bindings are exactly those the accepted messages (and genesis) made
	for k, b := range m.contracts {
		if nb, ok := now[k]; !ok || nb != b {
			w.Violation("C13", "contract-binding-changed", "binding %q -> batch %d is missing or different in state (stored: %v, present %v)", k, b, nb, ok)
		}
	}
	for k, nb := range now {
		if _, ok := m.contracts[k]; !ok {
			w.Violation("C13", "contract-binding-unexplained", "state binds %q -> batch %d but no accepted message made that binding", k, nb)
		}
	}
	// every stored origin-tx row is accounted for by an accepted issuing message and vice versa
	stored := map[string]bool{}
	for _, o := range st.Post.OriginTxs {
		stored[okey(o.ClassKey, o.Id, o.Source)] = true
	}
	for k := range m.origins {
		if !stored[k] {
			w.Violation("C13", "origin-index-lost", "origin tx %q issued credits but is no longer in the index (a replay would be accepted)", k)
		}
	}
}

func (m *C13) Finish(*eng.World) bool { return m.crossReplay && m.bridged }
