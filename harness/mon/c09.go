package mon

import (
	"regexp"
	"strings"

	"verif/eng"
)

// C09 — every reachable state survives genesis export / validate / import.
type C09 struct {
	eng.BaseMonitor
	rich bool
}

func (*C09) Property() string { return "C09" }

var reNoise = regexp.MustCompile(`[0-9]+|regen1[a-z0-9]+|"[A-Za-z0-9+/=]{20,}"`)
var reStack = regexp.MustCompile(` ?\[/[^\]]*\]`)

// errKey abbreviates a validation error into a stable signature.
func errKey(detail string) string {
	k := reStack.ReplaceAllString(detail, "")
	k = reNoise.ReplaceAllString(k, "#")
	k = strings.Join(strings.Fields(k), " ")
	if len(k) > 110 {
		k = k[:110]
	}
	return k
}

// RoundTripStep is the custom step "roundtrip".
func (m *C09) RoundTripStep(w *eng.World) {
	r := eng.RoundTrip(w.C)
	eng.G.Count("C09/roundtrips", 1)
	if r.Tables >= 10 {
		m.rich = true
		eng.G.Count("C09/roundtrips>=10tables", 1)
	}
	if r.Stage != "" {
		key := r.Stage + "/" + errKey(r.Detail)
		if r.Stage == "invariant" {
			key = "invariant/" + strings.SplitN(r.Detail, ":", 2)[0]
		}
		w.Violation("C09", key, "genesis round trip failed at stage %s: %s", r.Stage, r.Detail)
	}
}

func (m *C09) AfterBlock(w *eng.World, st *eng.BlockStep) {}

func (m *C09) Finish(w *eng.World) bool {
	m.RoundTripStep(w) // always at the end
	return m.rich
}
