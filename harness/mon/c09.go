package mon

import (
	"regexp"
	"strings"
	"time"

	"verif/eng"
)

// C09 — every reachable state survives genesis export / validate / import.
type C09 struct {
	eng.BaseMonitor
	rich bool
}

func (*C09) Property() string { return "C09" }

var reNoise = regexp.MustCompile(`[0-9]+|regen1[a-z0-9]+|"[A-Za-z0-9+/=]{20,}"`)
var reStack = regexp.MustCompile(` ?\[/[^\]]*\]`)

// errKey abbreviates a validation error into a stable signature.
func errKey(detail string) string {
	k := reStack.ReplaceAllString(detail, "")
	k = reNoise.ReplaceAllString(k, "#")
	k = strings.Join(strings.Fields(k), " ")
	if len(k) > 110 {
		k = k[:110]
	}
	return k
}

// RoundTripStep is the custom step "roundtrip".
func (m *C09) RoundTripStep(w *eng.World) {
	// genesis time of the importing chain: mostly the export time; otherwise later (beyond pending
	// expirations), exactly on an expiration, or earlier
	at := w.C.Time
	mode := (w.StepIdx / 3) % 8
	if w.T != nil {
		mode = w.Intn("c09.importat", 8)
	}
	switch mode {
	case 1:
		at = at.Add(time.Nanosecond)
	case 2:
		at = at.AddDate(1, 0, 0)
	case 3:
		at = at.AddDate(60, 0, 0)
	case 4:
		for _, o := range w.S.SellOrders {
			if o.Expiration != nil {
				at = o.Expiration.AsTime()
				break
			}
		}
	case 5:
		at = at.Add(-24 * time.Hour)
	}
	if !at.Equal(w.C.Time) {
		w.Flags["import-at-other-time"] = true
	}
	r := eng.RoundTrip(w.C, at)
	eng.G.Count("C09/roundtrips", 1)
	if r.Tables >= 10 {
		m.rich = true
		eng.G.Count("C09/roundtrips>=10tables", 1)
	}
	if r.Stage != "" {
		key := r.Stage + "/" + errKey(r.Detail)
		if r.Stage == "invariant" {
			key = "invariant/" + strings.SplitN(r.Detail, ":", 2)[0]
		}
		w.Violation("C09", key, "genesis round trip failed at stage %s: %s", r.Stage, r.Detail)
	}
}

func (m *C09) AfterBlock(w *eng.World, st *eng.BlockStep) {}

func (m *C09) Finish(w *eng.World) bool {
	m.RoundTripStep(w) // always at the end
	return m.rich
}
