package mon

import (
	"math/big"

	sdk "github.com/cosmos/cosmos-sdk/types"

	markettypes "github.com/regen-network/regen-ledger/x/ecocredit/v3/marketplace/types/v1"

	"verif/chain"
	"verif/eng"
	"verif/ref"
)

// C03 — ownership safety: holdings shrink only by the owner's signature or a paid fill.
type C03 struct {
	eng.BaseMonitor
	thirdParty bool
	holders    map[string]bool
}

func (*C03) Property() string { return "C03" }

func (m *C03) Init(*eng.World) { m.holders = map[string]bool{} }

type fill struct {
	qty *rat
	pay *rat
}

func (m *C03) AfterMsg(w *eng.World, st *eng.MsgStep) {
	if !st.Res.OK {
		return // branch discarded by the harness exactly as baseapp does
	}
	signers := map[string]bool{}
	for _, s := range st.Signers() {
		signers[s] = true
	}
	pool := chain.FeePoolAddr().String()

	// exception (i): fills of third parties' orders by an accepted BuyDirect
	escrowDrop := map[string]*rat{} // balKey -> allowed escrow decrease
	payTo := map[string]*rat{}      // addr|denom -> exact seller payment
	payN := map[string]int{}
	if msg, ok := st.Msg.(*markettypes.MsgBuyDirect); ok {
		var br, sr = zero(), zero()
		if len(st.Pre.FeeParams) > 0 {
			if x, ok := ref.Rate(st.Pre.FeeParams[0].BuyerPercentageFee); ok {
				br = x
			}
			if x, ok := ref.Rate(st.Pre.FeeParams[0].SellerPercentageFee); ok {
				sr = x
			}
		}
		for _, o := range msg.Orders {
			so := st.Pre.OrderByID(o.SellOrderId)
			if so == nil {
				continue
			}
			q, ok := ref.ParseRat(o.Quantity)
			if !ok {
				continue
			}
			k := balKey(so.Seller, so.BatchKey)
			if escrowDrop[k] == nil {
				escrowDrop[k] = zero()
			}
			escrowDrop[k].Add(escrowDrop[k], q)
			ask, _ := new(big.Int).SetString(so.AskAmount, 10)
			mk := st.Pre.MarketByID(so.MarketId)
			if ask != nil && mk != nil {
				s := ref.Settle(q, ask, br, sr)
				pk := sdk.AccAddress(so.Seller).String() + "|" + mk.BankDenom
				if payTo[pk] == nil {
					payTo[pk] = zero()
				}
				payTo[pk].Add(payTo[pk], s.SellerPay)
				payN[pk]++
			}
			m.thirdParty = true
		}
	}

	post := map[string][3]*rat{}
	for _, b := range st.Post.Balances {
		post[balKey(b.Address, b.BatchKey)] = [3]*rat{ref.MustRat(b.TradableAmount), ref.MustRat(b.RetiredAmount), ref.MustRat(b.EscrowedAmount)}
	}
	for _, b := range st.Pre.Balances {
		a := sdk.AccAddress(b.Address).String()
		if ref.MustRat(b.TradableAmount).Sign() > 0 {
			m.holders[a] = true
		}
		if signers[a] {
			continue
		}
		k := balKey(b.Address, b.BatchKey)
		p, ok := post[k]
		if !ok {
			p = [3]*rat{zero(), zero(), zero()}
		}
		t0, e0 := ref.MustRat(b.TradableAmount), ref.MustRat(b.EscrowedAmount)
		if p[0].Cmp(t0) < 0 {
			w.Violation("C03", "non-signer-tradable-decreased", "%s signed by %v: tradable of %s in batch %d went %s -> %s", st.Kind, st.Signers(), a, b.BatchKey, b.TradableAmount, ref.RatString(p[0]))
		}
		if p[2].Cmp(e0) < 0 {
			drop := sub(e0, p[2])
			allowed := escrowDrop[k]
			if allowed == nil || drop.Cmp(allowed) != 0 {
				w.Violation("C03", "non-signer-escrow-decreased", "%s signed by %v: escrow of %s in batch %d went %s -> %s (filled quantity %v)", st.Kind, st.Signers(), a, b.BatchKey, b.EscrowedAmount, ref.RatString(p[2]), allowed)
			}
		}
	}
	// a seller whose order was filled must have been paid in the ask denom
	for pk, want := range payTo {
		i := len(pk) - 1
		for pk[i] != '|' {
			i--
		}
		addr, denom := pk[:i], pk[i+1:]
		if signers[addr] {
			continue
		}
		got := new(big.Rat).SetInt(new(big.Int).Sub(st.Post.BankOf(addr, denom), st.Pre.BankOf(addr, denom)))
		tol := new(big.Rat).SetInt64(int64(payN[pk]))
		rel := new(big.Rat).Mul(want, new(big.Rat).SetFrac(big.NewInt(1), ref.Pow10(30)))
		if rel.Cmp(tol) > 0 {
			tol = rel
		}
		diff := sub(got, want)
		if diff.Sign() < 0 {
			diff.Neg(diff)
		}
		if diff.Cmp(tol) > 0 {
			w.Violation("C03", "seller-not-paid", "buy signed by %v: seller %s was paid %s %s for fills worth %s", st.Signers(), addr, ref.RatString(got), denom, ref.RatString(want))
		}
	}
	// bank balances of non-signers never decrease (fee pool: only by the authority's GovSendFromFeePool)
	for _, ch := range st.Diff().Bank {
		if ch.Delta.Sign() >= 0 || signers[ch.Addr] {
			continue
		}
		if ch.Addr == pool {
			if _, ok := st.Msg.(*markettypes.MsgGovSendFromFeePool); ok && signers[chain.Authority().String()] {
				continue
			}
			w.Violation("C03", "fee-pool-reduced", "%s signed by %v reduced the fee pool's %s by %s", st.Kind, st.Signers(), ch.Denom, ch.Delta)
			continue
		}
		w.Violation("C03", "non-signer-coins-decreased", "%s signed by %v: %s balance of %s changed by %s", st.Kind, st.Signers(), ch.Denom, ch.Addr, ch.Delta)
	}
	if st.Kind == "send" || st.Kind == "bankSend" {
		m.thirdParty = true
	}
}

func (m *C03) AfterBlock(w *eng.World, st *eng.BlockStep) {
	removed := map[string]*rat{}
	for _, o := range st.Pre.SellOrders {
		if st.Post.OrderByID(o.Id) == nil {
			k := balKey(o.Seller, o.BatchKey)
			if removed[k] == nil {
				removed[k] = zero()
			}
			removed[k].Add(removed[k], ref.MustRat(o.Quantity))
			m.thirdParty = true
		}
	}
	post := map[string][3]*rat{}
	for _, b := range st.Post.Balances {
		post[balKey(b.Address, b.BatchKey)] = [3]*rat{ref.MustRat(b.TradableAmount), ref.MustRat(b.RetiredAmount), ref.MustRat(b.EscrowedAmount)}
	}
	for _, b := range st.Pre.Balances {
		k := balKey(b.Address, b.BatchKey)
		p, ok := post[k]
		if !ok {
			p = [3]*rat{zero(), zero(), zero()}
		}
		t0, r0, e0 := ref.MustRat(b.TradableAmount), ref.MustRat(b.RetiredAmount), ref.MustRat(b.EscrowedAmount)
		if add(p[0], p[2]).Cmp(add(t0, e0)) != 0 || p[1].Cmp(r0) != 0 {
			w.Violation("C03", "block-changed-holdings", "BeginBlock changed holdings of %s: tradable+escrowed %s -> %s, retired %s -> %s", k, ref.RatString(add(t0, e0)), ref.RatString(add(p[0], p[2])), ref.RatString(r0), ref.RatString(p[1]))
		}
		mv := removed[k]
		if mv == nil {
			mv = zero()
		}
		if sub(e0, p[2]).Cmp(mv) != 0 {
			w.Violation("C03", "block-escrow-change-not-expiry", "BeginBlock changed escrow of %s by %s but its expired orders sum to %s", k, ref.RatString(sub(e0, p[2])), ref.RatString(mv))
		}
	}
	d := st.Post
	_ = d
	for addr, m0 := range st.Pre.Bank {
		for denom, v := range m0 {
			if st.Post.BankOf(addr, denom).Cmp(v) != 0 {
				w.Violation("C03", "block-changed-bank", "BeginBlock changed %s balance of %s", denom, addr)
			}
		}
	}
}

func (m *C03) Finish(*eng.World) bool { return len(m.holders) >= 3 && m.thirdParty }
