package eng

import (
	"crypto/sha256"
	"encoding/hex"
	"encoding/json"
	"os"
	"sort"
	"sync"
)

// Stats is the per-process collector written to $VERIF_STATS at exit.
type Stats struct {
	mu           sync.Mutex
	Evaluations  int                       `json:"evaluations"`
	Counters     map[string]int            `json:"counters"`
	Labels       map[string]int            `json:"labels"`
	Accept       map[string]int            `json:"accept"`
	Reject       map[string]int            `json:"reject"`
	Reasons      map[string]map[string]int `json:"reject_reasons,omitempty"`
	NonTrivial   map[string]int            `json:"-"`
	NTHashes     []string                  `json:"nontrivial_hashes"`
	Samples      []interface{}             `json:"samples"`
	Excluded     map[string]int            `json:"excluded_known"`
	KnownSeen    map[string]int            `json:"known_seen"`
	Violations   []Violation               `json:"violations"`
	maxSamples   int
	sampleEveryN int
}

type Violation struct {
	Property string `json:"property"`
	Key      string `json:"key"`
	Msg      string `json:"msg"`
	Replay   string `json:"replay"`
}

var G = &Stats{
	Counters: map[string]int{}, Labels: map[string]int{}, Accept: map[string]int{}, Reject: map[string]int{},
	NonTrivial: map[string]int{}, Excluded: map[string]int{}, KnownSeen: map[string]int{}, maxSamples: 6,
}

func (s *Stats) Eval() { s.mu.Lock(); s.Evaluations++; s.mu.Unlock() }
func (s *Stats) Count(k string, n int) {
	s.mu.Lock()
	s.Counters[k] += n
	s.mu.Unlock()
}
func (s *Stats) Label(k string) { s.mu.Lock(); s.Labels[k]++; s.mu.Unlock() }

// Reason records why a message was rejected (only when $VERIF_REASONS is set).
func (s *Stats) Reason(kind, why string) {
	s.mu.Lock()
	if s.Reasons == nil {
		s.Reasons = map[string]map[string]int{}
	}
	if s.Reasons[kind] == nil {
		s.Reasons[kind] = map[string]int{}
	}
	s.Reasons[kind][why]++
	s.mu.Unlock()
}

func (s *Stats) Accepted(kind string, ok bool) {
	s.mu.Lock()
	if ok {
		s.Accept[kind]++
	} else {
		s.Reject[kind]++
	}
	s.mu.Unlock()
}

// NT records a non-trivial case by the hash of its abstract signature.
func (s *Stats) NT(sig string) {
	h := sha256.Sum256([]byte(sig))
	s.mu.Lock()
	s.NonTrivial[hex.EncodeToString(h[:8])]++
	s.mu.Unlock()
}

// Sample keeps the first few samples offered (non-trivial ones preferred by callers).
func (s *Stats) Sample(v interface{}) {
	s.mu.Lock()
	if len(s.Samples) < s.maxSamples {
		s.Samples = append(s.Samples, v)
	}
	s.mu.Unlock()
}

func (s *Stats) WantSample() bool {
	s.mu.Lock()
	defer s.mu.Unlock()
	return len(s.Samples) < s.maxSamples
}

func (s *Stats) ExcludedKnown(key string) { s.mu.Lock(); s.Excluded[key]++; s.mu.Unlock() }
func (s *Stats) Known(key string)         { s.mu.Lock(); s.KnownSeen[key]++; s.mu.Unlock() }
func (s *Stats) AddViolation(v Violation) {
	s.mu.Lock()
	s.Violations = append(s.Violations, v)
	s.mu.Unlock()
}

// Flush writes the stats file if $VERIF_STATS is set.
func (s *Stats) Flush() {
	p := os.Getenv("VERIF_STATS")
	if p == "" {
		return
	}
	s.mu.Lock()
	defer s.mu.Unlock()
	s.NTHashes = s.NTHashes[:0]
	for h := range s.NonTrivial {
		s.NTHashes = append(s.NTHashes, h)
	}
	sort.Strings(s.NTHashes)
	bz, err := json.Marshal(s)
	if err != nil {
		panic(err)
	}
	if err := os.WriteFile(p, bz, 0o644); err != nil {
		panic(err)
	}
}
