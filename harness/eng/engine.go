// Package eng is the shared stateful engine: a World (chain + snapshots +
// accounts + trace), monitors (the oracles), rapid generators for every
// message type, and trace record / replay.
package eng

import (
	"encoding/json"
	"fmt"
	"os"
	"path/filepath"
	"regexp"
	"strings"
	"time"

	dbm "github.com/cometbft/cometbft-db"
	codectypes "github.com/cosmos/cosmos-sdk/codec/types"
	sdk "github.com/cosmos/cosmos-sdk/types"
	"pgregory.net/rapid"

	"github.com/regen-network/regen-ledger/x/data/v3"

	"verif/chain"
	"verif/snap"
)

// MsgStep is what a monitor sees after a delivered message.
type MsgStep struct {
	Index int
	Kind  string
	Msg   sdk.Msg
	Res   chain.Result
	Pre   *snap.Snap
	Post  *snap.Snap // == Pre when the message failed (branch discarded)
	diff  *snap.Diff
}

func (s *MsgStep) Diff() snap.Diff {
	if s.diff == nil {
		d := snap.Compare(s.Pre, s.Post)
		s.diff = &d
	}
	return *s.diff
}

// Signers of the message as bech32 strings (canonical lower-case form).
func (s *MsgStep) Signers() []string {
	var out []string
	for _, a := range s.Msg.GetSigners() {
		out = append(out, a.String())
	}
	return out
}

// BlockStep is what a monitor sees after BeginBlock (and possibly a restart).
type BlockStep struct {
	Index     int
	Pre       *snap.Snap // end of previous block
	Post      *snap.Snap // after the begin blocker
	Panic     interface{}
	Restarted bool
	Hash      []byte // app hash of the block just committed
}

// Monitor is one property's oracle.
type Monitor interface {
	Property() string
	Init(w *World)
	AfterMsg(w *World, st *MsgStep)
	AfterBlock(w *World, st *BlockStep)
	// Finish is called at the end of a history; it returns whether the history
	// was non-trivial by the property's rule.
	Finish(w *World) bool
}

// BaseMonitor provides no-op methods.
type BaseMonitor struct{}

func (BaseMonitor) Init(*World)                   {}
func (BaseMonitor) AfterMsg(*World, *MsgStep)     {}
func (BaseMonitor) AfterBlock(*World, *BlockStep) {}
func (BaseMonitor) Finish(*World) bool            { return false }

// FailFunc aborts the current case.
type FailFunc func(format string, args ...interface{})

// World is one history in progress.
type World struct {
	T    *rapid.T // nil in replay mode
	C    *chain.Chain
	R    *snap.Reader
	S    *snap.Snap // current state
	Opts chain.Options

	Accts   []sdk.AccAddress
	Profile *Profile
	Mons    []Monitor
	Trace   *Trace
	Fail    FailFunc
	OutDir  string

	StepIdx   int
	Sig       []string        // abstract signature of the history (kind:ok)
	Flags     map[string]bool // history-level labels set by generators/monitors
	Accepted  map[string]int
	SkipKnown bool // when true an excluded known finding ends the case quietly

	// scratch shared between generators
	usedOrigin     []originRef
	hashPool       [][]byte
	lastDigest     []byte
	lastDigestStep int
	bulkGraphs     []*data.ContentHash_Graph // graphs attested by bulkAttest steps
	forceGas       uint64                    // replay: the recorded gas limit of the next delivery
	// identifiers of entities that were created only inside discarded branches (speculative steps): as far as
	// state is concerned they never existed, and later messages sometimes name them
	phCreditTypes, phClasses, phProjects, phBatches, phBaskets []string
	phBatchInfo                                                []phBatch // project and dates of batches issued only inside discarded branches
	collPair                                                   int       // 1 + index of the history's colliding pair, 0 = not drawn yet
	inBranch                                                   bool      // inside a speculative (discarded) branch
	brNew                                                      idSets    // what the branch has created so far
}

type originRef struct{ ID, Source, Contract string }

type phBatch struct {
	Denom, ProjectID string
	Start, End       time.Time
}

// NewWorld builds a chain from the genesis spec and opens the first block.
func NewWorld(t *rapid.T, g GenesisSpec, prof *Profile, fail FailFunc, mons ...Monitor) *World {
	w := &World{T: t, Profile: prof, Mons: mons, Fail: fail, Flags: map[string]bool{}, Accepted: map[string]int{}}
	w.Opts = chain.Options{DataHasher: g.Hasher.Build(), ChainID: g.ChainID}
	w.C = chain.New(dbm.NewMemDB(), w.Opts)
	w.Accts = DefaultAccounts()
	cg, err := g.ToChainGenesis()
	if err != nil {
		fail("harness: bad genesis spec: %v", err)
	}
	if err := w.C.InitGenesis(cg); err != nil {
		fail("harness: InitGenesis failed on a genesis that passed validation: %v", err)
	}
	w.R = snap.NewReader(w.C)
	w.Trace = &Trace{Genesis: g}
	w.OutDir = os.Getenv("VERIF_OUT")
	// first block
	w.C.BeginBlock(g.Time().Add(5 * time.Second))
	w.S = w.R.Take(w.C)
	for _, m := range mons {
		m.Init(w)
	}
	return w
}

func (w *World) addSig(kind string, ok bool) {
	if ok {
		w.Sig = append(w.Sig, kind+"+")
		w.Accepted[kind]++
	} else {
		w.Sig = append(w.Sig, kind+"-")
	}
}

// Deliver runs one message through the chain and all monitors.
func (w *World) Deliver(kind string, msg sdk.Msg) *MsgStep {
	w.StepIdx++
	w.Trace.AddMsg(w.C, kind, msg)
	pre := w.S
	// what a handler sees is always a wire-decoded message (UTC times, fresh
	// structs): round-trip through the protobuf Any encoding as a tx decode does
	var res chain.Result
	if dec, err := wireRoundTrip(w.C, msg); err != nil {
		// a message that has no wire encoding (e.g. a timestamp beyond year 9999) cannot reach a chain at all:
		// it is not part of the history (no trace step, no monitor call)
		G.Count("undecodable/"+kind, 1)
		w.Trace.Steps = w.Trace.Steps[:len(w.Trace.Steps)-1]
		w.StepIdx--
		return &MsgStep{Index: w.StepIdx, Kind: kind, Msg: msg, Res: chain.Result{Err: fmt.Errorf("tx decode: %w", err), Stage: "decode"}, Pre: pre, Post: pre}
	} else {
		msg = dec
		gas := w.forceGas
		if w.T != nil && w.Profile != nil && w.Profile.GasSqueezePct > 0 && w.chance("gas?squeeze", w.Profile.GasSqueezePct) {
			// the gas limit of a transaction is not an input of the message's meaning: measure what the message
			// needs on a discarded branch, then deliver it with a limit just below, exactly at, or a little above
			// that (a limit that does not suffice must fail the message without effect)
			var need uint64
			var wouldPass bool
			w.C.Sandbox(func() {
				if d2, err := wireRoundTrip(w.C, msg); err == nil {
					r := w.C.Deliver(d2)
					need, wouldPass = r.GasUsed, r.OK
				}
			})
			if wouldPass && need > 0 {
				w.Flags["gas-squeezed-delivery"] = true
				extra := []uint64{0, 1, 500, 4000, 12000, 25000, 29999, 60000}[w.intn("gas.extra", 8)]
				gas = need + extra
				if w.chance("gas?short", 20) {
					gas = need - 1 - uint64(w.intn("gas.short", 3))*need/4
					if gas == 0 {
						gas = 1
					}
				}
			}
		}
		if gas > 0 {
			w.Trace.Steps[len(w.Trace.Steps)-1].Gas = gas
			res = w.C.DeliverGas(msg, gas)
		} else {
			res = w.C.Deliver(msg)
		}
	}
	w.Trace.SetResult(res.OK, res.Err)
	post := pre
	if res.OK {
		post = w.R.Take(w.C)
	}
	w.S = post
	st := &MsgStep{Index: w.StepIdx, Kind: kind, Msg: msg, Res: res, Pre: pre, Post: post}
	G.Accepted(kind, res.OK)
	if !res.OK && wantReasons {
		G.Reason(kind, abbreviateErr(res.Err))
	}
	if res.Panic != nil && !res.OutOfGas {
		G.Count("handler_panic/"+kind, 1)
	}
	w.addSig(kind, res.OK)
	for _, m := range w.Mons {
		m.AfterMsg(w, st)
	}
	return st
}

// NextBlock commits the open block and begins the next one at time t.
func (w *World) NextBlock(t time.Time, restart bool) *BlockStep {
	w.StepIdx++
	w.Trace.AddBlock(t, restart)
	pre := w.S
	hash := w.C.Commit()
	if restart {
		w.C = w.C.Restart()
		w.R = snap.NewReader(w.C)
	}
	p := w.C.BeginBlock(t)
	post := w.R.Take(w.C)
	w.S = post
	st := &BlockStep{Index: w.StepIdx, Pre: pre, Post: post, Panic: p, Restarted: restart, Hash: hash}
	if restart {
		w.addSig("restart", true)
	} else {
		w.addSig("block", true)
	}
	for _, m := range w.Mons {
		m.AfterBlock(w, st)
	}
	return st
}

// Faucet mints coins to an account (harness-attributed; monitors see it as a
// block-like step with no message so frame conditions are not applied).
func (w *World) Faucet(addr sdk.AccAddress, coins sdk.Coins) {
	w.StepIdx++
	w.Trace.AddFaucet(addr, coins)
	if err := w.C.Faucet(addr, coins); err != nil {
		w.Fail("harness: faucet failed: %v", err)
	}
	w.S = w.R.Take(w.C)
	w.addSig("faucet", true)
}

// Violation reports a property violation unless it is a listed open finding.
// It returns true when the violation was excluded as known (the caller may
// continue); otherwise it does not return (Fail aborts the case).
func (w *World) Violation(property, key, format string, args ...interface{}) bool {
	msg := fmt.Sprintf(format, args...)
	if pat := MatchKnownOpen(property, key); pat != "" {
		G.ExcludedKnown(pat)
		w.Flags["known:"+pat] = true
		return true
	}
	replay := w.SaveTrace(property, key)
	G.AddViolation(Violation{Property: property, Key: key, Msg: msg, Replay: replay})
	G.Flush()
	w.Fail("VIOLATION-DETAIL property=%s key=%s step=%d: %s\ntrace=%s", property, key, w.StepIdx, msg, replay)
	return false
}

// SaveTrace writes the JSON trace of the current history to the out dir.
func (w *World) SaveTrace(property, key string) string {
	dir := w.OutDir
	if dir == "" {
		dir = os.TempDir()
	}
	_ = os.MkdirAll(dir, 0o755)
	name := fmt.Sprintf("%s-%s.trace.json", property, sanitize(key))
	p := filepath.Join(dir, name)
	w.Trace.Property = property
	w.Trace.Key = key
	bz, err := json.MarshalIndent(w.Trace, "", " ")
	if err != nil {
		return "(trace marshal failed: " + err.Error() + ")"
	}
	if err := os.WriteFile(p, bz, 0o644); err != nil {
		return "(trace write failed: " + err.Error() + ")"
	}
	return p
}

func sanitize(s string) string {
	r := strings.NewReplacer("/", "_", " ", "_", ":", "_", "*", "_", ">", "gt", "<", "lt")
	s = r.Replace(s)
	if len(s) > 80 {
		s = s[:80]
	}
	return s
}

// Finish closes a history: asks monitors for non-triviality and records stats.
func (w *World) Finish() {
	G.Eval()
	G.Count("steps", w.StepIdx)
	nt := false
	for _, m := range w.Mons {
		if m.Finish(w) {
			nt = true
		}
	}
	for f := range w.Flags {
		G.Label(f)
	}
	if nt {
		G.Label("nontrivial")
		G.NT(strings.Join(w.Sig, ","))
		if G.WantSample() {
			G.Sample(w.Trace.Abstract(40))
		}
	}
}

var wantReasons = os.Getenv("VERIF_REASONS") != ""

var digitsRe = regexp.MustCompile(`[0-9]+|regen1[a-z0-9]+|0x[0-9a-fA-F]+`)

func abbreviateErr(err error) string {
	if err == nil {
		return ""
	}
	e := digitsRe.ReplaceAllString(err.Error(), "#")
	if len(e) > 90 {
		e = e[:90]
	}
	return e
}

func wireRoundTrip(c *chain.Chain, msg sdk.Msg) (out sdk.Msg, err error) {
	defer func() {
		if r := recover(); r != nil {
			err = fmt.Errorf("panic: %v", r)
		}
	}()
	any, err := codectypes.NewAnyWithValue(msg)
	if err != nil {
		return nil, err
	}
	bz, err := any.Marshal()
	if err != nil {
		return nil, err
	}
	var a2 codectypes.Any
	if err := a2.Unmarshal(bz); err != nil {
		return nil, err
	}
	if err := c.Cdc.UnpackAny(&a2, &out); err != nil {
		return nil, err
	}
	return out, nil
}
