package eng

import (
	"encoding/base64"
	"encoding/json"
	"fmt"
	"math/big"
	"sync"

	dbm "github.com/cometbft/cometbft-db"
	sdk "github.com/cosmos/cosmos-sdk/types"
	"pgregory.net/rapid"

	"github.com/regen-network/regen-ledger/x/data/v3"
	"github.com/regen-network/regen-ledger/x/data/v3/server/hasher"

	"verif/chain"
	"verif/ref"
)

var (
	tmplOnce  sync.Once
	tmplChain *chain.Chain
	defEco    map[string]json.RawMessage
)

// TemplateChain is a throw-away chain used for codecs and module methods
// (DefaultGenesis / ValidateGenesis) that need no state.
func TemplateChain() *chain.Chain {
	tmplOnce.Do(func() {
		tmplChain = chain.New(dbm.NewMemDB(), chain.Options{})
		bz := tmplChain.Eco.DefaultGenesis(tmplChain.Cdc)
		if err := json.Unmarshal(bz, &defEco); err != nil {
			panic(err)
		}
	})
	return tmplChain
}

func defaultEcoDoc() map[string]json.RawMessage {
	TemplateChain()
	out := map[string]json.RawMessage{}
	for k, v := range defEco {
		out[k] = v
	}
	return out
}

func b64(b []byte) string { return base64.StdEncoding.EncodeToString(b) }

type coinJSON struct {
	Denom  string `json:"denom"`
	Amount string `json:"amount"`
}

// GenGenesis draws a configuration: the default genesis mutated by generated
// parameters. The result must pass the module's own ValidateGenesis; if it
// does not the generator is wrong (reported as a harness failure).
func GenGenesis(t *rapid.T, prof *Profile) GenesisSpec {
	g := GenesisSpec{TimeUnix: 1_700_000_000}
	for _, a := range DefaultAccounts() {
		g.Funds = append(g.Funds, Fund{Addr: a.String(), Coins: FundsPerAcc})
	}
	doc := defaultEcoDoc()
	accts := DefaultAccounts()
	draw := func(label string, n int) int { return uniform(t, label, n) }
	// the network the history runs on: the properties hold on every chain id, the real ones included
	if id := []string{"", "", "", "regen-1", "regen-redwood-1", "regen-local", "regen-test-1", "cosmoshub-4"}[draw("g.chainid", 8)]; id != "" {
		g.ChainID = id
		g.Notes = append(g.Notes, "chain-id="+id)
	}
	if h := []int64{0, 0, 0, 9_600_000, 20_000_000, 2}[draw("g.initialheight", 6)]; h > 0 {
		g.InitialHeight = h
		g.Notes = append(g.Notes, fmt.Sprintf("initial-height=%d", h))
	}
	// a vesting account among the users: most of its coins are locked (it owns them, it cannot spend them)
	if prof.VestingPct > 0 && draw("g.vesting", 100) >= 100-prof.VestingPct {
		keep := []string{"1000", "1000000", "50000000", "0"}[draw("g.vesting.keep", 4)]
		k, _ := sdk.NewIntFromString(keep)
		var lk sdk.Coins
		for _, d := range BankDenoms {
			lk = lk.Add(sdk.NewCoin(d, sdk.NewInt(1_000_000_000_000).Sub(k)))
		}
		g.Locked = append(g.Locked, Fund{Addr: accts[3].String(), Coins: lk.String()})
		g.Notes = append(g.Notes, "vesting{A3 spendable="+keep+"}")
	}

	// a fee pool that is not empty at genesis (fees collected before the export this chain started from)
	if draw("g.feepool", 4) == 3 {
		g.Funds = append(g.Funds, Fund{Addr: feePoolAddrStr(), Coins: "1234567" + DenomRegen + ",777" + DenomStake})
		g.Notes = append(g.Notes, "fee-pool-funded-at-genesis")
	}

	// credit types
	cts := []map[string]interface{}{{"abbreviation": "C", "name": "carbon", "unit": "metric ton CO2 equivalent", "precision": 6}}
	switch draw("g.credittypes", 3) {
	case 1:
		cts = append(cts, map[string]interface{}{"abbreviation": "BIO", "name": "biodiversity", "unit": "ha", "precision": 6})
	case 2:
		cts = append(cts, map[string]interface{}{"abbreviation": "BIO", "name": "biodiversity", "unit": "ha", "precision": 6},
			map[string]interface{}{"abbreviation": "KS", "name": "soil", "unit": "t", "precision": 6})
	}
	doc["regen.ecocredit.v1.CreditType"] = mustJSON(cts)

	// class fee / basket fee
	feeChoice := func(label string) interface{} {
		switch draw(label, 8) {
		case 0:
			g.Notes = append(g.Notes, label+"=unset")
			return map[string]interface{}{"fee": nil}
		case 1:
			if prof.AllowZeroFeeGenesis {
				g.Notes = append(g.Notes, label+"=0stake")
				return map[string]interface{}{"fee": coinJSON{DenomStake, "0"}}
			}
			return map[string]interface{}{"fee": coinJSON{DenomStake, "1"}}
		case 2:
			return map[string]interface{}{"fee": coinJSON{DenomStake, "1"}}
		case 3:
			return map[string]interface{}{"fee": coinJSON{DenomRegen, "5000000"}}
		case 6:
			// a hand-written amount: genesis JSON reads integers with Go's base-prefix syntax (0x.., 0o.., 0b.., digit
			// separators, a leading zero = octal), and the keeper reads the stored string the same way
			sp := []string{"0x1312D00", "20_000_000", "0o17", "0b1", "017", "0X10"}[draw(label+".spelled", 6)]
			g.Notes = append(g.Notes, label+"=spelled:"+sp)
			return map[string]interface{}{"fee": coinJSON{DenomStake, sp}}
		case 5:
			g.Notes = append(g.Notes, label+"=1e19ibc")
			return map[string]interface{}{"fee": coinJSON{DenomIBC, "10000000000000000000"}}
		case 4:
			if uniform(t, label+".hostile", 100) < prof.HostilePct {
				g.Notes = append(g.Notes, label+">funds")
				return map[string]interface{}{"fee": coinJSON{DenomStake, "2000000000000"}}
			}
		}
		return map[string]interface{}{"fee": coinJSON{DenomStake, "20000000"}}
	}
	doc["regen.ecocredit.v1.ClassFee"] = mustJSON(feeChoice("g.classfee"))
	doc["regen.ecocredit.basket.v1.BasketFee"] = mustJSON(feeChoice("g.basketfee"))

	// allowlist
	switch draw("g.allowlist", 4) {
	case 1:
		doc["regen.ecocredit.v1.ClassCreatorAllowlist"] = mustJSON(map[string]interface{}{"enabled": true})
		doc["regen.ecocredit.v1.AllowedClassCreator"] = mustJSON([]map[string]interface{}{{"address": b64(accts[0])}, {"address": b64(accts[2])}})
		g.Notes = append(g.Notes, "allowlist=on{A0,A2}")
	case 2:
		if uniform(t, "g.allowlist.hostile", 100) < prof.HostilePct {
			doc["regen.ecocredit.v1.ClassCreatorAllowlist"] = mustJSON(map[string]interface{}{"enabled": true})
			g.Notes = append(g.Notes, "allowlist=on{}")
		}
	}

	// allowed denoms
	ads := []map[string]interface{}{{"bank_denom": DenomStake, "display_denom": DenomStake, "exponent": 6}}
	switch draw("g.alloweddenoms", 4) {
	case 0:
		ads = append(ads, map[string]interface{}{"bank_denom": DenomRegen, "display_denom": "regen", "exponent": 6})
	case 1:
		ads = append(ads, map[string]interface{}{"bank_denom": DenomRegen, "display_denom": "regen", "exponent": 6},
			map[string]interface{}{"bank_denom": DenomIBC, "display_denom": "usdc", "exponent": 6})
	case 3:
		ads = append(ads, map[string]interface{}{"bank_denom": DenomIBC, "display_denom": "weth", "exponent": 18})
	case 2:
		if prof.AllowEmptyDenoms {
			ads = nil
			g.Notes = append(g.Notes, "alloweddenoms=none")
		}
	}
	if ads == nil {
		doc["regen.ecocredit.marketplace.v1.AllowedDenom"] = json.RawMessage("[]")
	} else {
		doc["regen.ecocredit.marketplace.v1.AllowedDenom"] = mustJSON(ads)
	}

	// marketplace fee params
	rates := prof.GenesisFeeRates
	if rates == nil {
		rates = []string{"", "0.01", "0.02", "0.1", "0.000001", "0.25"}
	}
	br, sr := rates[draw("g.buyerfee", len(rates))], rates[draw("g.sellerfee", len(rates))]
	if r, ok := ref.ParseRat(sr); ok && r.Cmp(big.NewRat(1, 1)) > 0 {
		sr = "1" // seller rates above 1 are rejected by genesis validation
	}
	if br != "" || sr != "" || draw("g.feeparams.set", 2) == 0 {
		doc["regen.ecocredit.marketplace.v1.FeeParams"] = mustJSON(map[string]interface{}{"buyer_percentage_fee": br, "seller_percentage_fee": sr})
		g.Notes = append(g.Notes, fmt.Sprintf("feeparams=%q/%q", br, sr))
	}

	// bridge chains
	switch draw("g.bridgechains", 3) {
	case 0:
		doc["regen.ecocredit.v1.AllowedBridgeChain"] = mustJSON([]map[string]interface{}{{"chain_name": "polygon"}})
	case 1:
		doc["regen.ecocredit.v1.AllowedBridgeChain"] = mustJSON([]map[string]interface{}{{"chain_name": "polygon"}, {"chain_name": "ethereum"}})
	}

	// identifiers: sequences near the padded width, or pre-made prefix-colliding classes
	prefixPct := prof.PrefixIDsPct
	if prof.PrefixIDs {
		prefixPct = 66
	}
	if prof.PopulatedPct > 0 && draw("g.populated", 100) >= 100-prof.PopulatedPct {
		// a populated registry: more classes, projects of one class, issuers of one class and allowed
		// creators than a default page (100) holds
		n := 101 + draw("g.populated.n", 15)
		classes := []interface{}{n}
		var issuers, creators []map[string]interface{}
		for i := 1; i <= n; i++ {
			classes = append(classes, map[string]interface{}{"key": fmt.Sprint(i), "id": fmt.Sprintf("C%02d", i), "admin": b64(accts[i%len(accts)]), "credit_type_abbrev": "C", "metadata": fmt.Sprintf("class %d", i)})
			issuers = append(issuers, map[string]interface{}{"class_key": fmt.Sprint(i), "issuer": b64(accts[i%len(accts)])})
		}
		for i := 0; i < n; i++ {
			a := make([]byte, 20)
			for j := range a {
				a[j] = 0x88
			}
			a[18], a[19] = byte(i>>8), byte(i)
			issuers = append(issuers, map[string]interface{}{"class_key": "1", "issuer": b64(a)})
			creators = append(creators, map[string]interface{}{"address": b64(a)})
		}
		for _, a := range accts[:4] {
			issuers = append(issuers, map[string]interface{}{"class_key": "2", "issuer": b64(a)})
			creators = append(creators, map[string]interface{}{"address": b64(a)})
		}
		doc["regen.ecocredit.v1.Class"] = mustJSON(classes)
		doc["regen.ecocredit.v1.ClassIssuer"] = mustJSON(issuers)
		doc["regen.ecocredit.v1.AllowedClassCreator"] = mustJSON(creators)
		doc["regen.ecocredit.v1.ClassSequence"] = mustJSON([]map[string]interface{}{{"credit_type_abbrev": "C", "next_sequence": fmt.Sprint(n + 1)}})
		m := 101 + draw("g.populated.m", 15)
		projects := []interface{}{m}
		for i := 1; i <= m; i++ {
			projects = append(projects, map[string]interface{}{"key": fmt.Sprint(i), "id": fmt.Sprintf("C01-%03d", i), "admin": b64(accts[(i/3)%len(accts)]), "class_key": "1", "jurisdiction": "US", "reference_id": []string{"", "VCS-001", "VCS-002"}[i%3]})
		}
		doc["regen.ecocredit.v1.Project"] = mustJSON(projects)
		doc["regen.ecocredit.v1.ProjectSequence"] = mustJSON([]map[string]interface{}{{"class_key": "1", "next_sequence": fmt.Sprint(m + 1)}})
		g.Notes = append(g.Notes, fmt.Sprintf("populated{classes=%d projects-of-C01=%d issuers-of-C01=%d creators=%d}", n, m, n+1, n+4))
	} else if draw("g.prefixids", 100) < prefixPct {
		classes := []interface{}{2,
			map[string]interface{}{"key": "1", "id": "C10", "admin": b64(accts[0]), "credit_type_abbrev": "C"},
			map[string]interface{}{"key": "2", "id": "C100", "admin": b64(accts[1]), "credit_type_abbrev": "C", "metadata": "m"},
		}
		doc["regen.ecocredit.v1.Class"] = mustJSON(classes)
		doc["regen.ecocredit.v1.ClassIssuer"] = mustJSON([]map[string]interface{}{
			{"class_key": "1", "issuer": b64(accts[0])}, {"class_key": "1", "issuer": b64(accts[2])},
			{"class_key": "2", "issuer": b64(accts[0])}, {"class_key": "2", "issuer": b64(accts[1])},
		})
		doc["regen.ecocredit.v1.ClassSequence"] = mustJSON([]map[string]interface{}{{"credit_type_abbrev": "C", "next_sequence": "101"}})
		projects := []interface{}{3,
			map[string]interface{}{"key": "1", "id": "C10-100", "admin": b64(accts[0]), "class_key": "1", "jurisdiction": "US", "reference_id": "VCS-001"},
			map[string]interface{}{"key": "2", "id": "C10-1000", "admin": b64(accts[2]), "class_key": "1", "jurisdiction": "KE"},
			map[string]interface{}{"key": "3", "id": "C100-001", "admin": b64(accts[1]), "class_key": "2", "jurisdiction": "US-WA", "reference_id": "VCS-001"},
		}
		doc["regen.ecocredit.v1.Project"] = mustJSON(projects)
		doc["regen.ecocredit.v1.ProjectSequence"] = mustJSON([]map[string]interface{}{
			{"class_key": "1", "next_sequence": "1001"}, {"class_key": "2", "next_sequence": "2"}})
		doc["regen.ecocredit.v1.BatchSequence"] = mustJSON([]map[string]interface{}{
			{"project_key": "1", "next_sequence": "999"}})
		g.Notes = append(g.Notes, "prefix-ids{C10,C100,C10-100,C10-1000,C100-001}")
		if draw("g.legacybatches", 2) == 1 {
			// batches carried over from an older store: zero amounts are omitted (empty strings), which genesis
			// validation and every handler accept as zero
			doc["regen.ecocredit.v1.Batch"] = mustJSON([]interface{}{3,
				map[string]interface{}{"key": "1", "issuer": b64(accts[0]), "project_key": "1", "denom": "C10-100-20200101-20210101-001", "metadata": "legacy",
					"start_date": "2020-01-01T00:00:00Z", "end_date": "2021-01-01T00:00:00Z", "issuance_date": "2021-06-01T00:00:00Z"},
				map[string]interface{}{"key": "2", "issuer": b64(accts[2]), "project_key": "1", "denom": "C10-100-20210101-20220101-002",
					"start_date": "2021-01-01T00:00:00Z", "end_date": "2022-01-01T00:00:00Z", "issuance_date": "2022-06-01T00:00:00Z", "open": true},
				map[string]interface{}{"key": "3", "issuer": b64(accts[1]), "project_key": "3", "denom": "C100-001-20190101-20200101-001",
					"start_date": "2019-01-01T00:00:00Z", "end_date": "2020-01-01T00:00:00Z", "issuance_date": "2020-06-01T00:00:00Z"},
			})
			doc["regen.ecocredit.v1.BatchSupply"] = mustJSON([]map[string]interface{}{
				{"batch_key": "1", "tradable_amount": "60", "retired_amount": "50"},
				{"batch_key": "2", "retired_amount": "7", "cancelled_amount": "0"},
				{"batch_key": "3", "tradable_amount": "100.5"},
			})
			doc["regen.ecocredit.v1.BatchBalance"] = mustJSON([]map[string]interface{}{
				{"batch_key": "1", "address": b64(accts[0]), "tradable_amount": "40"},
				{"batch_key": "1", "address": b64(accts[1]), "tradable_amount": "20", "retired_amount": "50"},
				{"batch_key": "2", "address": b64(accts[2]), "retired_amount": "7"},
				{"batch_key": "3", "address": b64(accts[0]), "tradable_amount": "100.5"},
			})
			doc["regen.ecocredit.v1.BatchSequence"] = mustJSON([]map[string]interface{}{
				{"project_key": "1", "next_sequence": "999"}, {"project_key": "3", "next_sequence": "2"}})
			g.Notes = append(g.Notes, "legacy-batches{3 batches, omitted zero amounts}")
			if draw("g.legacybaskets", 3) != 0 {
				// baskets carried over as well: one holding credits of two batches (one entry an explicit zero, which
				// state validation accepts and no handler ever writes), one that was emptied; the tokens are in
				// circulation, so the bank supply of the basket denoms is part of the configuration
				zero := []string{"0", "0.000000", "0.0"}[draw("g.legacybaskets.zero", 3)]
				doc["regen.ecocredit.basket.v1.Basket"] = mustJSON([]interface{}{2,
					map[string]interface{}{"id": "1", "basket_denom": "eco.uC.LEG", "name": "LEG", "disable_auto_retire": draw("g.legacybaskets.dar", 2) == 1,
						"credit_type_abbrev": "C", "exponent": 6, "curator": b64(accts[1])},
					map[string]interface{}{"id": "2", "basket_denom": "eco.uC.OLD", "name": "OLD", "disable_auto_retire": true,
						"credit_type_abbrev": "C", "exponent": 6, "curator": b64(accts[0]),
						"date_criteria": map[string]interface{}{"min_start_date": "2019-06-01T00:00:00Z"}},
				})
				bclasses := []map[string]interface{}{
					{"basket_id": "1", "class_id": "C10"}, {"basket_id": "1", "class_id": "C100"}, {"basket_id": "2", "class_id": "C10"}}
				if draw("g.legacybaskets.exp9", 3) == 2 {
					// a basket from before the exponent field was deprecated: its stored exponent (9) differs from the credit
					// type's precision (6). Genesis validation accepts it; it is empty and has no tokens in circulation.
					doc["regen.ecocredit.basket.v1.Basket"] = mustJSON([]interface{}{3,
						map[string]interface{}{"id": "1", "basket_denom": "eco.uC.LEG", "name": "LEG", "disable_auto_retire": draw("g.legacybaskets.dar", 2) == 1,
							"credit_type_abbrev": "C", "exponent": 6, "curator": b64(accts[1])},
						map[string]interface{}{"id": "2", "basket_denom": "eco.uC.OLD", "name": "OLD", "disable_auto_retire": true,
							"credit_type_abbrev": "C", "exponent": 6, "curator": b64(accts[0]),
							"date_criteria": map[string]interface{}{"min_start_date": "2019-06-01T00:00:00Z"}},
						map[string]interface{}{"id": "3", "basket_denom": "eco.nC.NANO", "name": "NANO", "disable_auto_retire": true,
							"credit_type_abbrev": "C", "exponent": 9, "curator": b64(accts[2])},
					})
					bclasses = append(bclasses, map[string]interface{}{"basket_id": "3", "class_id": "C10"}, map[string]interface{}{"basket_id": "3", "class_id": "C100"})
					g.Notes = append(g.Notes, "legacy-exponent-basket{NANO exponent 9, precision 6}")
				}
				if len(cts) > 1 {
					// the allowed list of basket LEG (credit type C) also names a class of another credit type: genesis
					// validation does not cross-check it, basket Create would have refused it
					doc["regen.ecocredit.v1.Class"] = mustJSON([]interface{}{3,
						map[string]interface{}{"key": "1", "id": "C10", "admin": b64(accts[0]), "credit_type_abbrev": "C"},
						map[string]interface{}{"key": "2", "id": "C100", "admin": b64(accts[1]), "credit_type_abbrev": "C", "metadata": "m"},
						map[string]interface{}{"key": "3", "id": "BIO01", "admin": b64(accts[2]), "credit_type_abbrev": "BIO"},
					})
					doc["regen.ecocredit.v1.ClassIssuer"] = mustJSON([]map[string]interface{}{
						{"class_key": "1", "issuer": b64(accts[0])}, {"class_key": "1", "issuer": b64(accts[2])},
						{"class_key": "2", "issuer": b64(accts[0])}, {"class_key": "2", "issuer": b64(accts[1])},
						{"class_key": "3", "issuer": b64(accts[2])}, {"class_key": "3", "issuer": b64(accts[0])},
					})
					doc["regen.ecocredit.v1.ClassSequence"] = mustJSON([]map[string]interface{}{
						{"credit_type_abbrev": "C", "next_sequence": "101"}, {"credit_type_abbrev": "BIO", "next_sequence": "2"}})
					doc["regen.ecocredit.v1.Project"] = mustJSON([]interface{}{4,
						map[string]interface{}{"key": "1", "id": "C10-100", "admin": b64(accts[0]), "class_key": "1", "jurisdiction": "US", "reference_id": "VCS-001"},
						map[string]interface{}{"key": "2", "id": "C10-1000", "admin": b64(accts[2]), "class_key": "1", "jurisdiction": "KE"},
						map[string]interface{}{"key": "3", "id": "C100-001", "admin": b64(accts[1]), "class_key": "2", "jurisdiction": "US-WA", "reference_id": "VCS-001"},
						map[string]interface{}{"key": "4", "id": "BIO01-001", "admin": b64(accts[2]), "class_key": "3", "jurisdiction": "BR"},
					})
					doc["regen.ecocredit.v1.ProjectSequence"] = mustJSON([]map[string]interface{}{
						{"class_key": "1", "next_sequence": "1001"}, {"class_key": "2", "next_sequence": "2"}, {"class_key": "3", "next_sequence": "2"}})
					bclasses = append(bclasses, map[string]interface{}{"basket_id": "1", "class_id": "BIO01"})
					g.Notes = append(g.Notes, "basket-lists-class-of-other-credit-type{LEG: BIO01}")
				}
				doc["regen.ecocredit.basket.v1.BasketClass"] = mustJSON(bclasses)
				doc["regen.ecocredit.basket.v1.BasketBalance"] = mustJSON([]map[string]interface{}{
					{"basket_id": "1", "batch_denom": "C10-100-20200101-20210101-001", "balance": "10.25", "batch_start_date": "2020-01-01T00:00:00Z"},
					{"basket_id": "1", "batch_denom": "C100-001-20190101-20200101-001", "balance": zero, "batch_start_date": "2019-01-01T00:00:00Z"},
					{"basket_id": "2", "batch_denom": "C10-100-20200101-20210101-001", "balance": zero, "batch_start_date": "2020-01-01T00:00:00Z"},
				})
				doc["regen.ecocredit.v1.BatchSupply"] = mustJSON([]map[string]interface{}{
					{"batch_key": "1", "tradable_amount": "70.25", "retired_amount": "50"},
					{"batch_key": "2", "retired_amount": "7", "cancelled_amount": "0"},
					{"batch_key": "3", "tradable_amount": "100.5"},
				})
				g.Funds = append(g.Funds, Fund{Addr: accts[1].String(), Coins: "10000000eco.uC.LEG"}, Fund{Addr: accts[4].String(), Coins: "250000eco.uC.LEG"})
				g.Notes = append(g.Notes, "legacy-baskets{LEG holds 10.25 of batch 1 and an explicit zero entry, OLD emptied with a zero entry}")
			}
		}
	} else {
		switch draw("g.classseq", 4) {
		case 1:
			doc["regen.ecocredit.v1.ClassSequence"] = mustJSON([]map[string]interface{}{{"credit_type_abbrev": "C", "next_sequence": "9"}})
			g.Notes = append(g.Notes, "classseq=9")
		case 2:
			doc["regen.ecocredit.v1.ClassSequence"] = mustJSON([]map[string]interface{}{{"credit_type_abbrev": "C", "next_sequence": "99"}})
			g.Notes = append(g.Notes, "classseq=99")
		case 3:
			doc["regen.ecocredit.v1.ClassSequence"] = mustJSON([]map[string]interface{}{{"credit_type_abbrev": "C", "next_sequence": "999"}})
			g.Notes = append(g.Notes, "classseq=999")
		}
	}

	// a data module that is not empty at genesis: anchors (one from before 1970, one in 2096), an attestation, two resolvers sharing a URL and a registration
	if prof.Weights["anchor"] > 0 && draw("g.datagenesis", 4) == 3 {
		g.Data = genDataGenesis(accts, nil)
		g.Notes = append(g.Notes, "data-genesis{3 anchors, 1 attestation, 2 resolvers, 1 registration}")
	}

	g.Eco = mustJSON(doc)
	tc := TemplateChain()
	if g.Data != nil {
		if err := tc.Data.ValidateGenesis(tc.Cdc, nil, g.Data); err != nil {
			t.Fatalf("harness: generated data genesis rejected by ValidateGenesis: %v\n%s", err, g.Data)
		}
	}
	if err := tc.Eco.ValidateGenesis(tc.Cdc, nil, g.Eco); err != nil {
		t.Fatalf("harness: generated genesis rejected by ValidateGenesis: %v\n%s", err, g.Eco)
	}
	return g
}

func feePoolAddrStr() string { return chain.FeePoolAddr().String() }

// poolHash is entry i of the content-hash pool the data generators draw from (see contentHashPool).
func poolHash(i int, ext string) *data.ContentHash {
	h := make([]byte, 32)
	for j := range h {
		h[j] = byte(i*7 + j)
	}
	if i%2 == 0 {
		return &data.ContentHash{Graph: &data.ContentHash_Graph{Hash: h, DigestAlgorithm: 1, CanonicalizationAlgorithm: 1}}
	}
	return &data.ContentHash{Raw: &data.ContentHash_Raw{Hash: h, DigestAlgorithm: 1, FileExtension: ext}}
}

// genDataGenesis builds a populated data genesis whose compact ids are what the server with hasher hs (nil = the
// production hasher) would have assigned, in this order (the server finds a data id by probing the hasher's
// candidates, so rows with other ids could never be anchored again).
func genDataGenesis(accts []sdk.AccAddress, hs hasher.Hasher) json.RawMessage {
	if hs == nil {
		var err error
		if hs, err = hasher.NewHasher(); err != nil {
			panic(err)
		}
	}
	used := map[string]bool{}
	assign := func(iri string) []byte {
		for n := 0; ; n++ {
			id := hs.CreateID([]byte(iri), n)
			if !used[string(id)] {
				used[string(id)] = true
				return id
			}
		}
	}
	iri := func(ch *data.ContentHash) string {
		s, err := ch.ToIRI()
		if err != nil {
			panic(err)
		}
		return s
	}
	i0, i1, i2 := iri(poolHash(0, "")), iri(poolHash(1, "pdf")), iri(poolHash(2, ""))
	id0, id1, id2 := assign(i0), assign(i1), assign(i2)
	doc := map[string]interface{}{
		"regen.data.v1.DataID": []map[string]interface{}{
			{"id": b64(id0), "iri": i0}, {"id": b64(id1), "iri": i1}, {"id": b64(id2), "iri": i2}},
		"regen.data.v1.DataAnchor": []map[string]interface{}{
			{"id": b64(id0), "timestamp": "2020-01-01T00:00:00Z"}, {"id": b64(id1), "timestamp": "1969-12-31T23:59:59.5Z"}, {"id": b64(id2), "timestamp": "2096-02-29T12:00:00Z"}}, // after every block time of most histories
		"regen.data.v1.DataAttestor": []map[string]interface{}{
			{"id": b64(id0), "attestor": b64(accts[1]), "timestamp": "2021-03-04T05:06:07Z"}},
		"regen.data.v1.Resolver": []interface{}{2,
			map[string]interface{}{"id": "1", "url": "https://legacy.example/data", "manager": b64(accts[0])},
			map[string]interface{}{"id": "2", "url": "https://legacy.example/data", "manager": b64(accts[1])}},
		"regen.data.v1.DataResolver": []map[string]interface{}{{"resolver_id": "1", "id": b64(id0)}},
	}
	return mustJSON(doc)
}
