package eng

import (
	"bytes"
	"encoding/json"
	"fmt"
	"time"

	dbm "github.com/cometbft/cometbft-db"

	"verif/chain"
)

// RoundTripResult describes one export -> validate -> import -> re-export cycle.
type RoundTripResult struct {
	Stage  string // "" = fine; "export", "validate-eco", "validate-data", "import", "reexport", "differs-eco", "differs-data", "invariant"
	Detail string
	Tables int // number of tables with at least one row in the exported documents
}

func canonicalJSON(bz []byte) ([]byte, error) {
	var v interface{}
	d := json.NewDecoder(bytes.NewReader(bz))
	d.UseNumber()
	if err := d.Decode(&v); err != nil {
		return nil, err
	}
	return json.Marshal(v) // map keys are sorted by encoding/json
}

func countTables(bz []byte) int {
	var m map[string]json.RawMessage
	if json.Unmarshal(bz, &m) != nil {
		return 0
	}
	n := 0
	for _, v := range m {
		s := bytes.TrimSpace(v)
		if len(s) > 2 && s[0] == '[' {
			n++
		}
	}
	return n
}

// RoundTrip exports the ecocredit and data state of c (plus auth and bank,
// which the basket invariant needs), validates the documents with the
// modules' own ValidateGenesis, imports them into an empty chain, re-exports
// and compares, and runs the registered invariants on the imported chain.
//
// importAt is the genesis time of the importing chain: the export time, or later (a chain restarted from an
// export starts later), or earlier; what is imported must not depend on it.
func RoundTrip(c *chain.Chain, importAt time.Time) RoundTripResult {
	ctx := c.ReadCtx()
	eco, err := c.ExportEco(ctx)
	if err != nil {
		return RoundTripResult{Stage: "export", Detail: err.Error()}
	}
	dat, err := c.ExportData(ctx)
	if err != nil {
		return RoundTripResult{Stage: "export", Detail: err.Error()}
	}
	res := RoundTripResult{Tables: countTables(eco) + countTables(dat)}
	if err := safeErr(func() error { return c.Eco.ValidateGenesis(c.Cdc, nil, eco) }); err != nil {
		res.Stage, res.Detail = "validate-eco", err.Error()
		return res
	}
	if err := safeErr(func() error { return c.Data.ValidateGenesis(c.Cdc, nil, dat) }); err != nil {
		res.Stage, res.Detail = "validate-data", err.Error()
		return res
	}
	auth := c.Cdc.MustMarshalJSON(c.AK.ExportGenesis(ctx))
	bank := c.Cdc.MustMarshalJSON(c.BK.ExportGenesis(ctx))
	n := chain.New(dbm.NewMemDB(), c.Opts)
	if err := n.InitGenesis(chain.Genesis{Time: importAt, Eco: eco, Data: dat, Auth: auth, Bank: bank}); err != nil {
		res.Stage, res.Detail = "import", err.Error()
		return res
	}
	nctx := n.ReadCtx()
	eco2, err := n.ExportEco(nctx)
	if err != nil {
		res.Stage, res.Detail = "reexport", err.Error()
		return res
	}
	dat2, err := n.ExportData(nctx)
	if err != nil {
		res.Stage, res.Detail = "reexport", err.Error()
		return res
	}
	a, _ := canonicalJSON(eco)
	b, _ := canonicalJSON(eco2)
	if !bytes.Equal(a, b) {
		res.Stage, res.Detail = "differs-eco", firstDiff(a, b)
		return res
	}
	a, _ = canonicalJSON(dat)
	b, _ = canonicalJSON(dat2)
	if !bytes.Equal(a, b) {
		res.Stage, res.Detail = "differs-data", firstDiff(a, b)
		return res
	}
	for _, ir := range n.RunInvariants() {
		if ir.Broken {
			res.Stage, res.Detail = "invariant", fmt.Sprintf("%s/%s: %s %v", ir.Module, ir.Route, ir.Msg, ir.Panic)
			return res
		}
	}
	return res
}

func safeErr(f func() error) (err error) {
	defer func() {
		if r := recover(); r != nil {
			err = fmt.Errorf("panic: %v", r)
		}
	}()
	return f()
}

func firstDiff(a, b []byte) string {
	i := 0
	for i < len(a) && i < len(b) && a[i] == b[i] {
		i++
	}
	lo := i - 80
	if lo < 0 {
		lo = 0
	}
	ha, hb := i+80, i+80
	if ha > len(a) {
		ha = len(a)
	}
	if hb > len(b) {
		hb = len(b)
	}
	return fmt.Sprintf("exported ...%s... re-exported ...%s...", a[lo:ha], b[lo:hb])
}
