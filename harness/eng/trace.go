package eng

import (
	"crypto/sha256"
	"encoding/binary"
	"encoding/json"
	"fmt"
	"hash"
	"os"
	"time"

	codectypes "github.com/cosmos/cosmos-sdk/codec/types"
	sdk "github.com/cosmos/cosmos-sdk/types"

	"github.com/regen-network/regen-ledger/x/data/v3/server/hasher"

	"verif/chain"
)

// HasherSpec describes the data-module ID hasher of a configuration (C16).
type HasherSpec struct {
	Kind   string `json:"kind,omitempty"` // "" = production, "minlen", "weak"
	MinLen int    `json:"min_len,omitempty"`
	K      int    `json:"k,omitempty"`      // weak: number of distinct hash outputs
	Repeat bool   `json:"repeat,omitempty"` // weak: outputs are one repeated byte
}

type weakHash struct {
	k      int
	repeat bool
	buf    []byte
}

func (h *weakHash) Write(p []byte) (int, error) { h.buf = append(h.buf, p...); return len(p), nil }
func (h *weakHash) Sum(b []byte) []byte {
	s := sha256.Sum256(h.buf)
	bucket := binary.BigEndian.Uint64(s[:8]) % uint64(h.k)
	out := make([]byte, 8)
	if h.repeat {
		for i := range out {
			out[i] = byte(bucket + 1)
		}
	} else {
		s2 := sha256.Sum256([]byte{byte(bucket), 0x5a})
		copy(out, s2[:8])
	}
	return append(b, out...)
}
func (h *weakHash) Reset()         { h.buf = nil }
func (h *weakHash) Size() int      { return 8 }
func (h *weakHash) BlockSize() int { return 64 }

// Build returns nil for the production hasher.
func (s HasherSpec) Build() hasher.Hasher {
	switch s.Kind {
	case "":
		return nil
	case "minlen":
		h, err := hasher.NewHasherWithOptions(hasher.HashOptions{MinLength: s.MinLen})
		if err != nil {
			panic(err)
		}
		return h
	case "weak":
		h, err := hasher.NewHasherWithOptions(hasher.HashOptions{
			MinLength: s.MinLen,
			NewHash:   func() hash.Hash { return &weakHash{k: s.K, repeat: s.Repeat} },
		})
		if err != nil {
			panic(err)
		}
		return h
	}
	panic("unknown hasher kind " + s.Kind)
}

type Fund struct {
	Addr  string `json:"addr"`
	Coins string `json:"coins"`
}

// GenesisSpec is the serialisable configuration a history starts from.
type GenesisSpec struct {
	TimeUnix      int64           `json:"time_unix"`
	Eco           json.RawMessage `json:"eco,omitempty"`
	Data          json.RawMessage `json:"data,omitempty"`
	Funds         []Fund          `json:"funds,omitempty"`
	Locked        []Fund          `json:"locked,omitempty"` // permanently locked (vesting) part of an account's funds
	Hasher        HasherSpec      `json:"hasher,omitempty"`
	ChainID       string          `json:"chain_id,omitempty"` // "" = the harness default "verif-1"
	InitialHeight int64           `json:"initial_height,omitempty"`
	Notes         []string        `json:"notes,omitempty"`
}

func (g GenesisSpec) Time() time.Time { return time.Unix(g.TimeUnix, 0).UTC() }

func (g GenesisSpec) ToChainGenesis() (chain.Genesis, error) {
	cg := chain.Genesis{Time: g.Time(), Eco: g.Eco, Data: g.Data, InitialHeight: g.InitialHeight}
	for _, f := range g.Funds {
		a, err := sdk.AccAddressFromBech32(f.Addr)
		if err != nil {
			return cg, err
		}
		c, err := sdk.ParseCoinsNormalized(f.Coins)
		if err != nil {
			return cg, err
		}
		cg.Balances = append(cg.Balances, chain.Balance{Addr: a, Coins: c})
	}
	for _, f := range g.Locked {
		a, err := sdk.AccAddressFromBech32(f.Addr)
		if err != nil {
			return cg, err
		}
		c, err := sdk.ParseCoinsNormalized(f.Coins)
		if err != nil {
			return cg, err
		}
		cg.Locked = append(cg.Locked, chain.Balance{Addr: a, Coins: c})
	}
	return cg, nil
}

// TStep is one recorded step.
type TStep struct {
	Kind    string          `json:"kind"`          // message kind, "block", "restart", "faucet"
	Msg     json.RawMessage `json:"msg,omitempty"` // human-readable rendering (may be lossy, e.g. huge durations)
	Bin     []byte          `json:"bin,omitempty"` // protobuf Any bytes: what Replay decodes
	TimeNs  int64           `json:"time_ns,omitempty"`
	Time    string          `json:"time,omitempty"` // RFC 3339 with nanoseconds; wins over time_ns (which cannot hold years beyond 2262)
	Addr    string          `json:"addr,omitempty"`
	Coins   string          `json:"coins,omitempty"`
	Gas     uint64          `json:"gas_limit,omitempty"` // explicit gas limit of this delivery (0 = default)
	OK      *bool           `json:"ok,omitempty"`
	Err     string          `json:"err,omitempty"`
	MsgType string          `json:"type,omitempty"`
	Sub     []TStep         `json:"sub,omitempty"` // kind "spec": messages executed on a discarded branch
}

// When is the block time of a "block" / "restart" step.
func (s TStep) When() time.Time {
	if s.Time != "" {
		if t, err := time.Parse(time.RFC3339Nano, s.Time); err == nil {
			return t.UTC()
		}
	}
	return time.Unix(0, s.TimeNs).UTC()
}

// Trace is a replayable history.
type Trace struct {
	Property string      `json:"property,omitempty"`
	Key      string      `json:"key,omitempty"`
	Genesis  GenesisSpec `json:"genesis"`
	Steps    []TStep     `json:"steps"`
}

func (tr *Trace) AddMsg(c *chain.Chain, kind string, msg sdk.Msg) {
	bz, err := c.Cdc.MarshalInterfaceJSON(msg)
	st := TStep{Kind: kind, Msg: bz, MsgType: sdk.MsgTypeURL(msg)}
	if err != nil {
		st.Msg = nil
		st.Err = "json: " + err.Error()
	}
	if any, err := codectypes.NewAnyWithValue(msg); err == nil {
		st.Bin, _ = any.Marshal()
	}
	tr.Steps = append(tr.Steps, st)
}

func (tr *Trace) SetResult(ok bool, err error) {
	if len(tr.Steps) == 0 {
		return
	}
	st := &tr.Steps[len(tr.Steps)-1]
	st.OK = &ok
	if err != nil {
		e := err.Error()
		if len(e) > 160 {
			e = e[:160]
		}
		st.Err = e
	}
}

func (tr *Trace) AddBlock(t time.Time, restart bool) {
	k := "block"
	if restart {
		k = "restart"
	}
	tr.Steps = append(tr.Steps, TStep{Kind: k, Time: t.UTC().Format(time.RFC3339Nano)})
}

func (tr *Trace) AddFaucet(a sdk.AccAddress, c sdk.Coins) {
	tr.Steps = append(tr.Steps, TStep{Kind: "faucet", Addr: a.String(), Coins: c.String()})
}

// Abstract renders up to n steps compactly for evidence samples.
func (tr *Trace) Abstract(n int) interface{} {
	var out []string
	for i, s := range tr.Steps {
		if i >= n {
			out = append(out, fmt.Sprintf("... (%d more)", len(tr.Steps)-n))
			break
		}
		switch s.Kind {
		case "block", "restart":
			out = append(out, fmt.Sprintf("%s@%s", s.Kind, s.When().Format(time.RFC3339Nano)))
		case "faucet":
			out = append(out, "faucet "+s.Coins)
		default:
			ok := "?"
			if s.OK != nil {
				if *s.OK {
					ok = "ok"
				} else {
					ok = "rejected"
				}
			}
			m := string(s.Msg)
			if len(m) > 300 {
				m = m[:300] + "…"
			}
			out = append(out, fmt.Sprintf("%s[%s] %s", s.Kind, ok, m))
		}
	}
	return map[string]interface{}{"genesis_notes": tr.Genesis.Notes, "steps": out}
}

// LoadTrace reads a JSON trace file.
func LoadTrace(path string) (*Trace, error) {
	bz, err := os.ReadFile(path)
	if err != nil {
		return nil, err
	}
	var tr Trace
	if err := json.Unmarshal(bz, &tr); err != nil {
		return nil, err
	}
	return &tr, nil
}

// Replay executes a recorded trace against a fresh chain with the given
// monitors. Messages are decoded afresh (handlers mutate their requests).
func Replay(tr *Trace, prof *Profile, fail FailFunc, mons ...Monitor) *World {
	return ReplayHook(tr, prof, fail, nil, mons...)
}

// ReplayHook is Replay with a callback run once the chain exists and before the first step.
func ReplayHook(tr *Trace, prof *Profile, fail FailFunc, hook func(w *World), mons ...Monitor) *World {
	w := NewWorld(nil, tr.Genesis, prof, fail, mons...)
	if hook != nil {
		hook(w)
	}
	for _, s := range tr.Steps {
		switch s.Kind {
		case "block", "restart":
			w.NextBlock(s.When(), s.Kind == "restart")
		case "spec":
			w.replaySpec(s)
		case "faucet":
			a, err := sdk.AccAddressFromBech32(s.Addr)
			if err != nil {
				fail("trace: %v", err)
			}
			c, err := sdk.ParseCoinsNormalized(s.Coins)
			if err != nil {
				fail("trace: %v", err)
			}
			w.Faucet(a, c)
		default:
			w.forceGas = s.Gas
			w.Deliver(s.Kind, w.decodeStep(s))
			w.forceGas = 0
		}
	}
	return w
}

func (w *World) decodeStep(s TStep) sdk.Msg {
	var msg sdk.Msg
	if len(s.Bin) > 0 {
		var any codectypes.Any
		if err := any.Unmarshal(s.Bin); err != nil {
			w.Fail("harness: trace: cannot decode message: %v", err)
		}
		if err := w.C.Cdc.UnpackAny(&any, &msg); err != nil {
			w.Fail("harness: trace: cannot unpack message: %v", err)
		}
	} else if err := w.C.Cdc.UnmarshalInterfaceJSON(s.Msg, &msg); err != nil {
		w.Fail("harness: trace: cannot decode message: %v", err)
	}
	return msg
}

// replaySpec re-executes the messages of a recorded speculative step on a discarded branch.
func (w *World) replaySpec(s TStep) {
	w.StepIdx++
	w.Trace.Steps = append(w.Trace.Steps, s)
	w.C.Sandbox(func() {
		for _, x := range s.Sub {
			w.C.Deliver(w.decodeStep(x))
		}
	})
	w.addSig("spec", true)
}
