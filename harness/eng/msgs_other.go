package eng

import (
	"fmt"
	"math/big"
	"sort"
	"time"

	sdk "github.com/cosmos/cosmos-sdk/types"
	gogotypes "github.com/cosmos/gogoproto/types"

	basketapi "github.com/regen-network/regen-ledger/api/v2/regen/ecocredit/basket/v1"
	marketapi "github.com/regen-network/regen-ledger/api/v2/regen/ecocredit/marketplace/v1"
	"github.com/regen-network/regen-ledger/x/data/v3"
	baskettypes "github.com/regen-network/regen-ledger/x/ecocredit/v3/basket/types/v1"
	markettypes "github.com/regen-network/regen-ledger/x/ecocredit/v3/marketplace/types/v1"

	"verif/ref"
)

func sortStrings(s []string) { sort.Strings(s) }

func init() {
	Gens["basketCreate"] = genBasketCreate
	Gens["put"] = genPut
	Gens["take"] = genTake
	Gens["updBasketFee"] = genUpdBasketFee
	Gens["updCurator"] = genUpdCurator
	Gens["updDateCriteria"] = genUpdDateCriteria
	Gens["sell"] = genSell
	Gens["updSell"] = genUpdSell
	Gens["cancelSell"] = genCancelSell
	Gens["buy"] = genBuy
	Gens["addDenom"] = genAddDenom
	Gens["removeDenom"] = genRemoveDenom
	Gens["setFeeParams"] = genSetFeeParams
	Gens["sendFromPool"] = genSendFromPool
	Gens["anchor"] = genAnchor
	Gens["attest"] = genAttest
	Gens["defineResolver"] = genDefineResolver
	Gens["registerResolver"] = genRegisterResolver
}

// ---- basket ----

var basketNames = []string{"NCT", "BCT", "nct", "Eco1", "ABCDEFGH", "rNCT", "NCT2"}

func (w *World) dateCriteria(label string) *baskettypes.DateCriteria {
	bt := w.C.Time
	switch w.intn(label, 13) {
	case 0, 1, 10, 11, 12:
		return nil
	case 2, 3, 4:
		// a minimum start date from the shared pool so that batches land on both sides and exactly on it
		d := pickOf(w, label+"min", datePool)
		if d.Year() < 1901 || d.Year() > 9000 {
			d = time.Date(2020, 1, 1, 0, 0, 0, 0, time.UTC)
		}
		// a criterion inside a second: batches starting on the whole second are before it
		if w.intn(label+"?subsec", 4) == 3 {
			d = d.Add(pickOf(w, label+"subsec", []time.Duration{1, 500 * time.Millisecond, 999999999}))
			w.Flags["sub-second-date-criterion"] = true
		}
		ts, err := gogotypes.TimestampProto(d)
		if err != nil {
			return nil
		}
		return &baskettypes.DateCriteria{MinStartDate: ts}
	case 5, 6:
		// window chosen so that block time - window hits a pool date exactly, or a round number of days
		var win time.Duration
		if w.chance(label+"?exact", 60) {
			d := pickOf(w, label+"target", datePool[4:11])
			win = bt.Sub(d)
			if w.intn(label+"?subsecwin", 4) == 3 {
				win -= pickOf(w, label+"subsecwin", []time.Duration{1, 500 * time.Millisecond, 999999999}) // the boundary falls inside d's second
				w.Flags["sub-second-date-criterion"] = true
			}
			if win < 24*time.Hour {
				win = 24 * time.Hour
			}
		} else {
			win = time.Duration(1+w.intn(label+"days", 4000)) * 24 * time.Hour
		}
		return &baskettypes.DateCriteria{StartDateWindow: gogotypes.DurationProto(win)}
	case 7:
		// windows beyond what time.Duration can hold (~292 years) are valid by the validator
		secs := int64(300+w.intn(label+"years", 3000)) * 365 * 24 * 3600
		w.Flags["window>292y"] = true
		return &baskettypes.DateCriteria{StartDateWindow: &gogotypes.Duration{Seconds: secs}}
	default:
		y := uint32(1 + w.intn(label+"yip", 60))
		if w.chance(label+"?hugeyears", 5) {
			y = uint32(3000 + w.intn(label+"hy", 100000))
		}
		return &baskettypes.DateCriteria{YearsInThePast: y}
	}
}

func genBasketCreate(w *World) sdk.Msg {
	curator := w.anyAcct("curator")
	ct := w.creditTypeAbbrev("ct")
	var classes []string
	wrongType := w.offState("wrongtype")
	for _, c := range w.S.Classes {
		if (c.CreditTypeAbbrev == ct || wrongType) && w.chance("?incl"+c.Id, 70) {
			classes = append(classes, c.Id)
		}
	}
	if len(classes) == 0 && !wrongType { // prefer a credit type that has classes
		for _, c := range w.S.Classes {
			if len(classes) == 0 || c.CreditTypeAbbrev == ct {
				if len(classes) == 0 {
					ct = c.CreditTypeAbbrev
				}
				classes = append(classes, c.Id)
			}
		}
	}
	if len(classes) == 0 {
		id, _ := w.pickClassID("class")
		classes = append(classes, id)
	}
	if len(classes) > 0 && w.offState("ghostclass") {
		// a well-formed id of a class that does not exist, after existing ones
		classes = append(classes, pickOf(w, "ghost", []string{ct + "77", ct + "999", "C99", ct + "01"}))
	}
	name := pickOf(w, "name", basketNames)
	if w.chance("?fresh", 40) {
		name = fmt.Sprintf("B%d", 100+w.StepIdx)
	}
	m := &baskettypes.MsgCreate{
		Curator:           w.AddrStr("cstr", curator),
		Name:              name,
		Description:       "basket",
		DisableAutoRetire: w.chance("?disable", 50),
		CreditTypeAbbrev:  ct,
		AllowedClasses:    classes,
		DateCriteria:      w.dateCriteria("dc"),
	}
	if f := w.offerFee("fee", w.RequiredBasketFee(), curator); f != nil {
		m.Fee = sdk.Coins{*f}
	}
	if w.chance("?exponent", 10) { // deprecated field: the exponent comes from the credit type's precision
		m.Exponent = pickOf(w, "exponent", []uint32{6, 0, 3, 9, 18})
	}
	return m
}

func (w *World) pickBasket(label string) (string, *basketapi.Basket) {
	if d, ok := w.phantom(label, w.phBaskets); ok {
		return d, nil
	}
	if d, ok := w.branchNew(label, w.brNew.baskets); ok {
		for _, b := range w.S.Baskets {
			if b.BasketDenom == d {
				return d, b
			}
		}
	}
	if len(w.S.Baskets) > 0 && !w.offState(label) {
		b := pickOf(w, label, w.S.Baskets)
		return b.BasketDenom, b
	}
	return pickOf(w, label+"fake", []string{"eco.uC.NCT", "eco.uC.nope", "eco.C.NCT", "eco.uBIO.xyz"}), nil
}

func genPut(w *World) sdk.Msg {
	denom, bsk := w.pickBasket("basket")
	owner, bdenom, avail := w.pickHolding("hold")
	// prefer a holding whose class is allowed in the basket
	if bsk != nil && w.chance("?eligible", 70) {
		allowed := map[string]bool{}
		for _, bc := range w.S.BasketClasses {
			if bc.BasketId == bsk.Id {
				allowed[bc.ClassId] = true
			}
		}
		var cands []balRef
		dateOK := w.chance("?dateok", 75)
		for _, b := range w.balances(true) {
			if c := w.S.ClassOfBatch(b.Batch); c != nil && allowed[c.Id] {
				if dateOK && !w.roughlyAdmissible(bsk, b.Batch.StartDate.AsTime()) {
					continue
				}
				cands = append(cands, b)
			}
		}
		if len(cands) > 0 {
			b := pickOf(w, "elig", cands)
			owner, bdenom, avail = b.Addr, b.Batch.Denom, b.Tradable
		}
	}
	n := w.count("n")
	var credits []*baskettypes.BasketCredit
	for i := 0; i < n; i++ {
		d, av := bdenom, avail
		if i > 0 && w.chance("?other", 60) {
			for _, b := range w.balances(true) {
				if b.Addr.Equals(owner) && b.Batch.Denom != bdenom {
					d, av = b.Batch.Denom, b.Tradable
					break
				}
			}
		} else if i > 0 && av != nil {
			av = truncTo6(new(big.Rat).Quo(av, big.NewRat(3, 1)))
		}
		if len(w.phBatches) > 0 && !w.inBranch && w.intn("pbatch?", 5) == 4 {
			d = pickOf(w, "pbatch", w.phBatches) // a batch that was only ever issued inside a discarded branch
			w.Flags["phantom-id-used"] = true
		}
		credits = append(credits, &baskettypes.BasketCredit{BatchDenom: d, Amount: w.Amount("amt", av)})
	}
	return &baskettypes.MsgPut{Owner: w.AddrStr("ostr", owner), BasketDenom: denom, Credits: credits}
}

// roughlyAdmissible is a generator heuristic (not an oracle): does the batch start date
// pass the basket's date criterion at the current block time?
func (w *World) roughlyAdmissible(b *basketapi.Basket, start time.Time) bool {
	dc := b.DateCriteria
	if dc == nil {
		return true
	}
	bt := w.C.Time
	switch {
	case dc.MinStartDate != nil:
		return !start.Before(dc.MinStartDate.AsTime())
	case dc.StartDateWindow != nil:
		return !start.Before(bt.Add(-dc.StartDateWindow.AsDuration()))
	case dc.YearsInThePast != 0:
		return !start.Before(time.Date(bt.Year()-int(dc.YearsInThePast), 1, 1, 0, 0, 0, 0, time.UTC))
	}
	return true
}

func genTake(w *World) sdk.Msg {
	denom, bsk := w.pickBasket("basket")
	owner := w.anyAcct("owner")
	var bal *big.Int
	// a holder of more than 34 digits' worth of tokens is rare and is where the 34-digit decimal context matters:
	// when there is one, half of the takes are theirs
	forced := false
	if bsk != nil && w.chance("?bigholder", 50) {
	search:
		for _, b := range w.S.Baskets {
			for _, a := range w.Accts {
				if len(w.S.BankOf(a.String(), b.BasketDenom).String()) > 34 {
					denom, bsk, owner, forced = b.BasketDenom, b, a, true
					bal = w.S.BankOf(a.String(), b.BasketDenom)
					break search
				}
			}
		}
	}
	if bsk != nil && !forced {
		// prefer a token holder
		var holders []sdk.AccAddress
		for _, a := range w.Accts {
			if w.S.BankOf(a.String(), bsk.BasketDenom).Sign() > 0 {
				holders = append(holders, a)
			}
		}
		if len(holders) > 0 && !w.offState("nonholder") {
			owner = pickOf(w, "holder", holders)
		}
		bal = w.S.BankOf(owner.String(), bsk.BasketDenom)
	}
	amt := fmt.Sprintf("%d", 1+w.intn("amt", 5_000_000))
	if bal != nil && bal.Sign() > 0 {
		rel := w.intn("rel", 7)
		if forced && rel != 0 {
			rel = 5
		}
		switch rel {
		case 0:
			amt = bal.String()
		case 1:
			amt = new(big.Int).Add(bal, big.NewInt(1)).String()
		case 2:
			amt = "1"
		case 3:
			if h := new(big.Int).Quo(bal, big.NewInt(2)); h.Sign() > 0 {
				amt = h.String()
			}
		case 5:
			// a token amount of more than 34 significant digits that the owner can pay (the decimal context of the
			// chain has 34): everything but a little, or a little more than 10^34
			if len(bal.String()) > 34 {
				k := big.NewInt(int64(1 + w.intn("sub", 999)))
				if w.chance("?low", 50) {
					amt = new(big.Int).Add(new(big.Int).Exp(big.NewInt(10), big.NewInt(34), nil), k).String()
				} else {
					amt = new(big.Int).Sub(bal, k).String()
				}
				w.Flags["take>34-digits"] = true
			}
		case 4:
			// exactly the oldest batch's balance in tokens, or one token more/less
			if bsk != nil {
				var first *big.Rat
				var firstDate time.Time
				for _, bb := range w.S.BasketBalances {
					if bb.BasketId != bsk.Id {
						continue
					}
					d := bb.BatchStartDate.AsTime()
					if first == nil || d.Before(firstDate) {
						first, firstDate = ref.MustRat(bb.Balance), d
					}
				}
				if first != nil {
					tok := new(big.Rat).Mul(first, new(big.Rat).SetInt(ref.Pow10(6)))
					if tok.IsInt() {
						x := new(big.Int).Set(tok.Num())
						x.Add(x, big.NewInt(int64(w.intn("pm", 3)-1)))
						if x.Sign() > 0 {
							amt = x.String()
						}
					}
				}
			}
		}
	}
	if w.chance("?badamt", 3) {
		amt = pickOf(w, "bad", []string{"0", "-1", "1.5", "", "+7", "007"})
	}
	if w.chance("?oddint", 6) {
		// spellings that integer parsers may read in another base
		amt = pickOf(w, "odd", []string{"010", "0100", "0777", "0x10", "0b101", "0o17", "1_000", "00010"})
		w.Flags["take-amount-odd-integer-spelling"] = true
	}
	m := &baskettypes.MsgTake{Owner: w.AddrStr("ostr", owner), BasketDenom: denom, Amount: amt}
	retire := w.chance("?retire", 50)
	if bsk != nil && !bsk.DisableAutoRetire && !w.chance("?tryNoRetire", 8) {
		retire = true
	}
	m.RetireOnTake = retire
	if retire {
		switch w.intn("jurfield", 30) {
		case 1, 2, 3:
			m.RetirementLocation = w.jurisdiction("loc")
		case 4:
		default:
			m.RetirementJurisdiction = w.jurisdiction("jur")
		}
		m.RetirementReason = w.reason("reason")
	}
	return m
}

func genUpdBasketFee(w *World) sdk.Msg {
	return &baskettypes.MsgUpdateBasketFee{Authority: w.authority("auth"), Fee: w.feeCoin("fee")}
}

func genUpdCurator(w *World) sdk.Msg {
	denom, b := w.pickBasket("basket")
	var holder []byte
	if b != nil {
		holder = b.Curator
	}
	return &baskettypes.MsgUpdateCurator{Curator: w.AddrStr("cstr", w.roleSigner("curator", holder)), Denom: denom, NewCurator: w.AddrStr("nstr", w.anyAcct("new"))}
}

func genUpdDateCriteria(w *World) sdk.Msg {
	denom, _ := w.pickBasket("basket")
	return &baskettypes.MsgUpdateDateCriteria{Authority: w.authority("auth"), Denom: denom, NewDateCriteria: w.dateCriteria("dc")}
}

// ---- marketplace ----

func (w *World) allowedDenom(label string) string {
	if len(w.S.AllowedDenoms) > 0 && !w.offState(label) {
		return pickOf(w, label, w.S.AllowedDenoms).BankDenom
	}
	return pickOf(w, label+"any", BankDenoms)
}

// expiration draws an optional expiration relative to block time and to the
// expirations of existing orders (so that several expire in one block).
func (w *World) expiration(label string) *time.Time {
	x := w.intn(label, 100)
	bt := w.C.Time
	var e time.Time
	switch {
	case x < 30:
		return nil
	case x < 45 && len(w.S.SellOrders) > 0:
		o := pickOf(w, label+"same", w.S.SellOrders)
		if o.Expiration == nil {
			return nil
		}
		e = o.Expiration.AsTime()
	case x < 55:
		e = bt.Add(time.Nanosecond)
	case x < 58:
		e = bt // not in the future: rejected
	case x < 60:
		e = bt.Add(-time.Hour)
	case x < 80:
		e = bt.Add(time.Duration(1+w.intn(label+"s", 600)) * time.Second)
	case x < 86:
		// "never expires" dates, and the instants around which a nanosecond count no longer fits 64 bits
		w.Flags["far-future-expiration"] = true
		e = pickOf(w, label+"far", []time.Time{
			time.Date(2262, 4, 11, 23, 47, 16, 854775807, time.UTC), time.Date(2262, 4, 11, 23, 47, 16, 854775808, time.UTC), time.Date(2262, 4, 12, 0, 0, 0, 0, time.UTC),
			time.Date(2300, 1, 1, 0, 0, 0, 0, time.UTC), time.Date(2600, 1, 1, 0, 0, 0, 0, time.UTC), time.Date(3000, 1, 1, 0, 0, 0, 0, time.UTC), time.Date(9999, 12, 31, 23, 59, 59, 999999999, time.UTC)})
	default:
		e = bt.Add(time.Duration(1+w.intn(label+"d", 90)) * 24 * time.Hour)
	}
	if w.chance(label+"?nonutc", 5) {
		e = e.In(time.FixedZone("X", 3*3600))
	}
	return &e
}

func askAmount(w *World, label string) sdk.Int {
	if w.chance(label+"?zero", 2) {
		return sdk.NewInt(0)
	}
	switch w.intn(label, 10) {
	case 0:
		return sdk.NewInt(1)
	case 1:
		return sdk.NewInt(3)
	case 2:
		return sdk.NewInt(1_000_000)
	case 3:
		x, _ := sdk.NewIntFromString("100000000000000000000")
		return x
	}
	return sdk.NewInt(int64(1 + w.intn(label+"a", 5000)))
}

func genSell(w *World) sdk.Msg {
	seller, denom, avail := w.pickHolding("hold")
	n := w.count("n")
	var orders []*markettypes.MsgSell_Order
	for i := 0; i < n; i++ {
		av := avail
		if av != nil && n > 1 {
			av = truncTo6(new(big.Rat).Quo(av, big.NewRat(int64(n), 1)))
		}
		ask := sdk.NewCoin(w.allowedDenom("askd"), askAmount(w, "ask"))
		if ask.Denom == DenomIBC && w.chance("ask?big", 40) {
			w.Flags["ask>=2^63"] = true
			ask.Amount = BigCoinAmount(w, "askbig")
		}
		orders = append(orders, &markettypes.MsgSell_Order{
			BatchDenom:        denom,
			Quantity:          w.Amount("qty", av),
			AskPrice:          &ask,
			DisableAutoRetire: w.chance("?dar", 50),
			Expiration:        w.expiration("exp"),
		})
	}
	return &markettypes.MsgSell{Seller: w.AddrStr("sstr", seller), Orders: orders}
}

func (w *World) pickOrder(label string) (uint64, *marketapi.SellOrder) {
	if len(w.S.SellOrders) > 0 && !w.offState(label) {
		o := pickOf(w, label, w.S.SellOrders)
		return o.Id, o
	}
	return uint64(w.intn(label+"fake", 40)), nil
}

func genUpdSell(w *World) sdk.Msg {
	id, o := w.pickOrder("order")
	var holder []byte
	if o != nil {
		holder = o.Seller
	}
	seller := w.roleSigner("seller", holder)
	n := w.count("n")
	var ups []*markettypes.MsgUpdateSellOrders_Update
	for i := 0; i < n; i++ {
		oid, oo := id, o
		if i > 0 {
			oid, oo = w.pickOrder("order2")
		}
		var cur, avail *big.Rat
		if oo != nil {
			cur = ref.MustRat(oo.Quantity)
			t, _, _ := w.S.Balance(oo.Seller, oo.BatchKey)
			avail = new(big.Rat).Add(cur, t)
		}
		var q string
		switch w.intn("qmode", 5) {
		case 0:
			if cur != nil {
				q = ref.RatString(cur)
			} else {
				q = "1"
			}
		case 1:
			if cur != nil {
				h := truncTo6(new(big.Rat).Quo(cur, big.NewRat(2, 1)))
				if h.Sign() > 0 {
					q = ref.RatString(h)
					break
				}
			}
			q = w.Amount("q", cur)
		default:
			q = w.Amount("q", avail)
		}
		ask := sdk.NewCoin(w.allowedDenom("askd"), askAmount(w, "ask"))
		if oo != nil && w.chance("?samedenom", 60) {
			if m := w.S.MarketByID(oo.MarketId); m != nil {
				ask.Denom = m.BankDenom
			}
		}
		if ask.Denom == DenomIBC && w.chance("ask?big", 30) {
			w.Flags["ask>=2^63"] = true
			ask.Amount = BigCoinAmount(w, "askbig")
		}
		ups = append(ups, &markettypes.MsgUpdateSellOrders_Update{
			SellOrderId: oid, NewQuantity: q, NewAskPrice: &ask,
			DisableAutoRetire: w.chance("?dar", 50), NewExpiration: w.expiration("exp"),
		})
	}
	return &markettypes.MsgUpdateSellOrders{Seller: w.AddrStr("sstr", seller), Updates: ups}
}

func genCancelSell(w *World) sdk.Msg {
	id, o := w.pickOrder("order")
	var holder []byte
	if o != nil {
		holder = o.Seller
	}
	return &markettypes.MsgCancelSellOrder{Seller: w.AddrStr("sstr", w.roleSigner("seller", holder)), SellOrderId: id}
}

// feeRate parses the stored fee rate ("" = 0).
func feeRate(s string) *big.Rat {
	if s == "" {
		return new(big.Rat)
	}
	r, ok := ref.ParseRat(s)
	if !ok {
		return new(big.Rat)
	}
	return r
}

// genSweep is one BuyDirect over many open orders at once (a buyer sweeping the book): every order the buyer does
// not own, in scrambled order, tiny partial fills, then some of the first ones again.
func genSweep(w *World, buyer sdk.AccAddress) sdk.Msg {
	var cands []*marketapi.SellOrder
	for _, o := range w.S.SellOrders {
		if !sdk.AccAddress(o.Seller).Equals(buyer) {
			cands = append(cands, o)
		}
	}
	var picked []*marketapi.SellOrder
	for len(cands) > 0 && len(picked) < 16 {
		i := w.intn("sweep.pick", len(cands))
		picked = append(picked, cands[i])
		cands = append(cands[:i], cands[i+1:]...)
	}
	for i, k := 0, w.intn("sweep.repeat", 4); i < k && i < len(picked); i++ {
		picked = append(picked, picked[w.intn("sweep.again", len(picked))])
	}
	var orders []*markettypes.MsgBuyDirect_Order
	for _, o := range picked {
		denom := DenomStake
		if m := w.S.MarketByID(o.MarketId); m != nil {
			denom = m.BankDenom
		}
		ask, _ := sdk.NewIntFromString(o.AskAmount)
		bid := sdk.NewCoin(denom, ask)
		ample := sdk.NewCoin(denom, ask.MulRaw(10).AddRaw(1000))
		qty := "0.000001"
		if q := ref.MustRat(o.Quantity); q.Cmp(big.NewRat(3, 1)) > 0 && w.chance("sweep.whole", 30) {
			qty = "1"
		}
		orders = append(orders, &markettypes.MsgBuyDirect_Order{SellOrderId: o.Id, Quantity: qty, BidPrice: &bid, DisableAutoRetire: o.DisableAutoRetire,
			RetirementJurisdiction: "US-WA", MaxFeeAmount: &ample})
	}
	w.Flags["sweep-buy"] = true
	if len(orders) >= 10 {
		w.Flags["sweep-buy>=10-orders"] = true
	}
	return &markettypes.MsgBuyDirect{Buyer: buyer.String(), Orders: orders}
}

func btoi(b bool) int {
	if b {
		return 1
	}
	return 0
}

func genBuy(w *World) sdk.Msg {
	n := w.count("n")
	buyer := w.anyAcct("buyer")
	if len(w.S.SellOrders) >= 4 && w.chance("?sweep", 6+14*btoi(w.Flags["bulk-book"])) {
		return genSweep(w, buyer)
	}
	var orders []*markettypes.MsgBuyDirect_Order
	for i := 0; i < n; i++ {
		id, o := w.pickOrder(fmt.Sprintf("order%d", i))
		if i > 0 && w.chance("?sameorder", 25) {
			id = orders[0].SellOrderId
			o = w.S.OrderByID(id)
		}
		denom := DenomStake
		ask := sdk.NewInt(1 + int64(w.intn("bidamt", 100)))
		var qtyAvail *big.Rat
		dar := w.chance("?dar", 50)
		if o != nil {
			if sdk.AccAddress(o.Seller).Equals(buyer) && !w.offState("selfbuy") {
				for _, a := range w.Accts {
					if !a.Equals(sdk.AccAddress(o.Seller)) {
						buyer = a
						break
					}
				}
			}
			if m := w.S.MarketByID(o.MarketId); m != nil {
				denom = m.BankDenom
			}
			if a, ok := sdk.NewIntFromString(o.AskAmount); ok {
				ask = a
			}
			qtyAvail = ref.MustRat(o.Quantity)
			if !o.DisableAutoRetire && !w.chance("?tryDisable", 15) {
				dar = false
			}
		}
		bid := ask
		switch w.intn("bidmode", 10) {
		case 0:
			bid = ask.AddRaw(int64(1 + w.intn("over", 100)))
		case 1:
			if ask.GT(sdk.OneInt()) {
				bid = ask.SubRaw(1)
			}
		}
		if w.offState("wrongdenom") {
			denom = pickOf(w, "wd", BankDenoms)
		}
		bidc := sdk.NewCoin(denom, bid)
		qty := w.Amount("qty", qtyAvail)
		ord := &markettypes.MsgBuyDirect_Order{
			SellOrderId: id, Quantity: qty, BidPrice: &bidc, DisableAutoRetire: dar,
		}
		if !dar || w.chance("?jur", 30) {
			ord.RetirementJurisdiction = w.jurisdiction("jur")
			ord.RetirementReason = w.reason("reason")
		}
		// max fee: absent / exact floor / short by one / ample / other denom
		var fp *marketapi.FeeParams
		if len(w.S.FeeParams) > 0 {
			fp = w.S.FeeParams[0]
		}
		var exactFee *big.Int
		if fp != nil {
			if q, ok := ref.ParseRat(qty); ok && q.Sign() > 0 {
				sub := new(big.Rat).Mul(q, new(big.Rat).SetInt(ask.BigInt()))
				exactFee = ref.Floor(new(big.Rat).Mul(sub, feeRate(fp.BuyerPercentageFee)))
				if exactFee.BitLen() > 200 || exactFee.Sign() < 0 {
					exactFee = nil
				}
			}
		}
		switch x := w.intn("maxfee", 20); {
		case x == 19:
			// absent
		case x < 8 && exactFee != nil:
			c := sdk.NewCoin(denom, sdk.NewIntFromBigInt(exactFee))
			ord.MaxFeeAmount = &c
		case x == 18 && exactFee != nil && exactFee.Sign() > 0:
			c := sdk.NewCoin(denom, sdk.NewIntFromBigInt(new(big.Int).Sub(exactFee, big.NewInt(1))))
			ord.MaxFeeAmount = &c
		case x == 17 && w.offState("otherfeedenom"):
			c := sdk.NewCoin(pickOf(w, "mfd", BankDenoms), sdk.NewInt(1_000_000))
			ord.MaxFeeAmount = &c
		default:
			amt, _ := sdk.NewIntFromString("1000000000000000000000000000000")
			c := sdk.NewCoin(denom, amt)
			ord.MaxFeeAmount = &c
		}
		orders = append(orders, ord)
	}
	return &markettypes.MsgBuyDirect{Buyer: w.AddrStr("bstr", buyer), Orders: orders}
}

func genAddDenom(w *World) sdk.Msg {
	d := pickOf(w, "denom", BankDenoms)
	disp := pickOf(w, "disp", []string{"regen", "stakex", "atom", "ibcx", "REGEN"})
	exp := pickOf(w, "exp", []uint32{6, 0, 18, 5})
	return &markettypes.MsgAddAllowedDenom{Authority: w.authority("auth"), BankDenom: d, DisplayDenom: disp, Exponent: exp}
}

func genRemoveDenom(w *World) sdk.Msg {
	return &markettypes.MsgRemoveAllowedDenom{Authority: w.authority("auth"), Denom: w.allowedDenom("denom")}
}

// FeeRates is the boundary set of marketplace fee rates (accepted by the validator unless noted).
var FeeRates = []string{"", "0", "0.0", "0.000001", "0.01", "0.02", "0.1", "0.25", "0.5", "1", "0.3333333333333333333333333333333333", "1e-2", "+0.05",
	"1.5", "2", "0.2999999999999999999999999999999999995", "-0.1", "abc"}

func genSetFeeParams(w *World) sdk.Msg {
	m := &markettypes.MsgGovSetFeeParams{Authority: w.authority("auth"), Fees: &markettypes.FeeParams{
		BuyerPercentageFee:  pickOf(w, "buyer", FeeRates),
		SellerPercentageFee: pickOf(w, "seller", FeeRates),
	}}
	if w.chance("?nil", 2) {
		m.Fees = nil
	}
	return m
}

func genSendFromPool(w *World) sdk.Msg {
	pool := "regen1" // placeholder replaced below
	_ = pool
	var denoms []string
	fp := feePoolAddrStr()
	for d := range w.S.Bank[fp] {
		denoms = append(denoms, d)
	}
	sortStrings(denoms)
	coins := sdk.NewCoins(sdk.NewInt64Coin(DenomStake, int64(1+w.intn("amt", 1000))))
	if len(denoms) > 0 {
		d := pickOf(w, "d", denoms)
		bal := w.S.BankOf(fp, d)
		amt := new(big.Int).Set(bal)
		switch w.intn("rel", 3) {
		case 1:
			amt.Add(amt, big.NewInt(1))
		case 2:
			if h := new(big.Int).Quo(bal, big.NewInt(2)); h.Sign() > 0 {
				amt = h
			}
		}
		coins = sdk.NewCoins(sdk.NewCoin(d, sdk.NewIntFromBigInt(amt)))
	}
	return &markettypes.MsgGovSendFromFeePool{Authority: w.authority("auth"), Recipient: w.AddrStr("rstr", w.anyAcct("rcpt")), Coins: coins}
}

// ---- data ----

// contentHashPool returns a small pool of valid content hashes (raw and graph).
func (w *World) contentHash(label string) *data.ContentHash {
	// siblings: the same digest bytes as the previous hash of this step with another
	// extension or type (different content hashes, different IRIs)
	if w.lastDigest != nil && w.lastDigestStep == w.StepIdx && w.chance(label+"?sibling", 25) {
		h := append([]byte(nil), w.lastDigest...)
		if w.chance(label+"?sibgraph", 30) {
			return &data.ContentHash{Graph: &data.ContentHash_Graph{Hash: h, DigestAlgorithm: 1, CanonicalizationAlgorithm: 1}}
		}
		return &data.ContentHash{Raw: &data.ContentHash_Raw{Hash: h, DigestAlgorithm: 1, FileExtension: pickOf(w, label+"sibext", []string{"pdf", "csv", "json", "rdf", "txt"})}}
	}
	ch := w.contentHashPool(label)
	if w.intn(label+"?coll", 8) == 7 {
		ch = w.collidingHash(label, false)
	}
	if len(w.bulkGraphs) > 0 && w.chance(label+"?bulk", 20) {
		ch = &data.ContentHash{Graph: w.graphHash(label + "bg")}
	}
	if ch.Raw != nil {
		w.lastDigest = ch.Raw.Hash
	} else {
		w.lastDigest = ch.Graph.Hash
	}
	w.lastDigestStep = w.StepIdx
	return ch
}

func (w *World) contentHashPool(label string) *data.ContentHash {
	n := 6
	if w.Profile != nil && w.Profile.HashPool > 0 {
		n = w.Profile.HashPool
	}
	i := w.intn(label, n)
	h := make([]byte, 32)
	for j := range h {
		h[j] = byte(i*7 + j)
	}
	if i%2 == 0 {
		return &data.ContentHash{Graph: &data.ContentHash_Graph{Hash: h, DigestAlgorithm: 1, CanonicalizationAlgorithm: 1}}
	}
	return &data.ContentHash{Raw: &data.ContentHash_Raw{Hash: h, DigestAlgorithm: 1, FileExtension: pickOf(w, label+"ext", []string{"pdf", "csv", "json", "rdf"})}}
}

func (w *World) graphHash(label string) *data.ContentHash_Graph {
	if len(w.bulkGraphs) > 0 && w.chance(label+"?bulk", 35) {
		g := *w.bulkGraphs[w.intn(label+"bulk", len(w.bulkGraphs))]
		return &g
	}
	if w.intn(label+"?coll", 8) == 7 {
		return w.collidingHash(label, true).Graph
	}
	n := 6
	if w.Profile != nil && w.Profile.HashPool > 0 {
		n = w.Profile.HashPool
	}
	i := w.intn(label, n/2+1) * 2
	h := make([]byte, 32)
	for j := range h {
		h[j] = byte(i*7 + j)
	}
	return &data.ContentHash_Graph{Hash: h, DigestAlgorithm: 1, CanonicalizationAlgorithm: 1}
}

func genAnchor(w *World) sdk.Msg {
	m := &data.MsgAnchor{Sender: w.AddrStr("s", w.anyAcct("sender")), ContentHash: w.contentHash("ch")}
	if w.chance("?bad", 3) {
		m.ContentHash = &data.ContentHash{}
	}
	return m
}

func genAttest(w *World) sdk.Msg {
	n := w.count("n")
	var hs []*data.ContentHash_Graph
	for i := 0; i < n; i++ {
		hs = append(hs, w.graphHash(fmt.Sprintf("g%d", i)))
	}
	return &data.MsgAttest{Attestor: w.AddrStr("a", w.anyAcct("attestor")), ContentHashes: hs}
}

// every entry is accepted by MsgDefineResolver.ValidateBasic (url.ParseRequestURI): absolute URLs, URIs
// without an authority, and absolute paths
var resolverURLs = []string{"https://foo.bar", "https://foo.bar/a", "https://regen.network", "http://x.y", "/ipfs/gateway", "ipfs:QmYwAPJzv5CZsnA", "urn:regen:resolver", "file:///data", "https://foo.bar:8080/a?b=c#d", "HTTPS://FOO.BAR"}

func genDefineResolver(w *World) sdk.Msg {
	u := pickOf(w, "url", resolverURLs)
	if w.chance("?badurl", 3) {
		u = pickOf(w, "bad", []string{"", "foo", "ftp//x"})
	}
	return &data.MsgDefineResolver{Definer: w.AddrStr("d", w.anyAcct("definer")), ResolverUrl: u, Public: w.chance("?public", 35)}
}

func genRegisterResolver(w *World) sdk.Msg {
	id := uint64(w.intn("fakeid", 10))
	var holder []byte
	if len(w.S.Resolvers) > 0 && !w.offState("resolver") {
		r := pickOf(w, "resolver", w.S.Resolvers)
		id = r.Id
		holder = r.Manager
	}
	n := w.count("n")
	var hs []*data.ContentHash
	for i := 0; i < n; i++ {
		hs = append(hs, w.contentHash(fmt.Sprintf("ch%d", i)))
	}
	signer := w.roleSigner("signer", holder)
	if holder == nil {
		signer = w.anyAcct("anysigner")
	}
	return &data.MsgRegisterResolver{Signer: w.AddrStr("s", signer), ResolverId: id, ContentHashes: hs}
}

// SeededHash is a content hash determined by a number: graphs for even seeds, raw pdf files for odd ones.
func SeededHash(seed uint32) *data.ContentHash {
	h := make([]byte, 32)
	for j := range h {
		h[j] = byte(0xC0 + j)
	}
	h[0], h[1], h[2], h[3] = byte(seed>>24), byte(seed>>16), byte(seed>>8), byte(seed)
	if seed%2 == 0 {
		return &data.ContentHash{Graph: &data.ContentHash_Graph{Hash: h, DigestAlgorithm: 1, CanonicalizationAlgorithm: 1}}
	}
	return &data.ContentHash{Raw: &data.ContentHash_Raw{Hash: h, DigestAlgorithm: 1, FileExtension: "pdf"}}
}

// CollidingSeeds are pairs of SeededHash seeds whose IRIs agree in the first four bytes of the production data-id
// hasher (BLAKE2b-64, found by a birthday search, TestFindCollisions): anchoring both members of a pair takes the
// collision path of the real hasher, which random content never does. The first two pairs are graphs.
var CollidingSeeds = [][2]uint32{{31060, 81654}, {32382, 227066}, {150415, 244034}, {17001, 58695}, {137861, 271445}}

// collidingHash returns a member of the history's pair (one pair per history, so that both members meet).
func (w *World) collidingHash(label string, graphOnly bool) *data.ContentHash {
	if w.collPair == 0 {
		w.collPair = 1 + w.intn(label+"collpair", len(CollidingSeeds))
	}
	pair := CollidingSeeds[w.collPair-1]
	if graphOnly && w.collPair > 2 {
		pair = CollidingSeeds[(w.collPair-1)%2]
	}
	w.Flags["production-hasher-colliding-pair-used"] = true
	return SeededHash(pair[w.intn(label+"collmember", 2)])
}
