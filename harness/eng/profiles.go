package eng

// Standard prelude: quickly reach a state with a class, project, batches,
// a basket holding credits and open sell orders.
var stdPrelude = []string{"createClass", "createProject", "createBatch", "createBatch", "basketCreate", "put", "sell", "block"}

func mix(over map[string]int) map[string]int {
	base := map[string]int{
		"createClass": 3, "createProject": 3, "createBatch": 6, "mint": 4, "seal": 2, "send": 8, "retire": 5, "cancel": 4,
		"updClassAdmin": 1, "updClassIssuers": 1, "updClassMeta": 1, "updProjectAdmin": 1, "updProjectMeta": 1, "updBatchMeta": 1,
		"bridge": 3, "bridgeReceive": 3, "addCreditType": 1, "setAllowlist": 1, "addCreator": 1, "removeCreator": 1,
		"updClassFee": 1, "addBridgeChain": 1, "removeBridgeChain": 1, "burnRegen": 1, "unimplemented": 1, "bankSend": 3,
		"basketCreate": 3, "put": 8, "take": 8, "updBasketFee": 1, "updCurator": 1, "updDateCriteria": 1,
		"sell": 8, "updSell": 5, "cancelSell": 3, "buy": 9, "addDenom": 1, "removeDenom": 1, "setFeeParams": 1, "sendFromPool": 1,
		"block": 8, "restart": 1, "faucet": 1, "speculate": 4,
	}
	for k, v := range over {
		base[k] = v
	}
	return base
}

// ProfileFull is the full ecocredit message mix (C01..C04 and others).
func ProfileFull(name string, over map[string]int) *Profile {
	return &Profile{Name: name, Weights: mix(over), Prelude: stdPrelude, PrefixIDsPct: 20, PopulatedPct: 5, GasSqueezePct: 8}
}
