package eng

import (
	"encoding/json"
	"os"
	"path/filepath"
	"strings"
)

// Finding is one entry of /verif/known_findings.json.
type Finding struct {
	Status   string `json:"status"` // "open" or "fixed"
	Property string `json:"property"`
	Key      string `json:"key"`
	What     string `json:"what"`
	Witness  string `json:"witness,omitempty"`
	Commit   string `json:"commit,omitempty"`
}

var known []Finding
var knownLoaded bool

// Root is the /verif directory (override with $VERIF_ROOT).
func Root() string {
	if r := os.Getenv("VERIF_ROOT"); r != "" {
		return r
	}
	return "/verif"
}

func loadKnown() {
	if knownLoaded {
		return
	}
	knownLoaded = true
	bz, err := os.ReadFile(filepath.Join(Root(), "known_findings.json"))
	if err != nil {
		return
	}
	var doc struct {
		Findings []Finding `json:"findings"`
	}
	if err := json.Unmarshal(bz, &doc); err != nil {
		panic("known_findings.json: " + err.Error())
	}
	known = doc.Findings
}

// IsKnownOpen reports whether (property, key) is listed as an open finding.
// A listed key matches exactly, or as a prefix when it ends in "*".
func IsKnownOpen(property, key string) bool { return MatchKnownOpen(property, key) != "" }

// MatchKnownOpen returns the listed key (pattern) of the open finding that
// matches (property, key), or "".
func MatchKnownOpen(property, key string) string {
	loadKnown()
	for _, f := range known {
		if f.Status != "open" || f.Property != property {
			continue
		}
		if f.Key == key {
			return f.Key
		}
		if strings.HasSuffix(f.Key, "*") && strings.HasPrefix(key, strings.TrimSuffix(f.Key, "*")) {
			return f.Key
		}
		if strings.HasPrefix(f.Key, "*") && strings.HasSuffix(key, strings.TrimPrefix(f.Key, "*")) {
			return f.Key
		}
	}
	return ""
}

// OpenFindings lists the open findings of a property.
func OpenFindings(property string) []Finding {
	loadKnown()
	var out []Finding
	for _, f := range known {
		if f.Status == "open" && f.Property == property {
			out = append(out, f)
		}
	}
	return out
}
