package eng

import (
	"encoding/json"
	"fmt"
	"math/big"
	"sort"
	"strings"
	"time"

	sdk "github.com/cosmos/cosmos-sdk/types"
	"pgregory.net/rapid"

	baseapi "github.com/regen-network/regen-ledger/api/v2/regen/ecocredit/v1"

	"verif/chain"
	"verif/ref"
)

// DefaultAccounts returns the fixed user accounts of every history:
// five 20-byte addresses (the first two share a 19-byte prefix) and two
// 32-byte addresses (the first shares its first 20 bytes with account 0).
func DefaultAccounts() []sdk.AccAddress {
	mk := func(n int, fill byte, last byte) sdk.AccAddress {
		b := make([]byte, n)
		for i := range b {
			b[i] = fill
		}
		b[n-1] = last
		return sdk.AccAddress(b)
	}
	a0 := mk(20, 0x11, 0x01)
	a1 := mk(20, 0x11, 0x02)
	a2 := mk(20, 0x22, 0x03)
	a3 := mk(20, 0x33, 0x04)
	a4 := mk(20, 0x00, 0x05) // leading zero bytes
	a5 := make([]byte, 32)
	copy(a5, a0)
	for i := 20; i < 32; i++ {
		a5[i] = 0x55
	}
	a6 := mk(32, 0x66, 0x07)
	return []sdk.AccAddress{a0, a1, a2, a3, a4, sdk.AccAddress(a5), a6}
}

const (
	DenomStake = "stake"
	DenomRegen = "uregen"
	DenomIBC   = "ibc/CDC4587874B85BEA4FCEC3CEA5A1195139799A1FEE711A07D972537E18FDA39D"
	DenomOther = "uatom" // never allowed at genesis
	// the IBC denom stands for an 18-decimals asset: everyone holds 10^30 base units of it, so fees, prices and
	// payments of 2^63 .. 2^64 base units and beyond can actually be paid
	FundsPerAcc = "1000000000000stake,1000000000000uregen,1000000000000000000000000000000" + DenomIBC + ",1000000000000uatom"
)

var BankDenoms = []string{DenomStake, DenomRegen, DenomIBC, DenomOther}

// Profile weights step kinds for one property.
type Profile struct {
	Name    string
	Weights map[string]int
	Prelude []string // forced kinds for the first steps (arguments still drawn)
	// InvalidPct is the percentage of argument draws that are deliberately
	// off-state (random ids, strangers, malformed values).
	InvalidPct int
	// Genesis knobs
	PrefixIDs           bool // pre-made classes C10 / C100 etc. in two thirds of the configurations
	PrefixIDsPct        int  // otherwise: percentage of configurations with them
	AllowZeroFeeGenesis bool // genesis may carry a zero class/basket fee (C18 finding F10)
	AllowEmptyDenoms    bool
	GenesisFeeRates     []string
	HashPool            int
	EqualDatesPct       int
	RemapAny            bool // remap to prerequisite kinds even if they have no weight
	PopulatedPct        int  // percentage of configurations whose genesis already holds >100 classes / projects / issuers / creators
	GasSqueezePct       int  // percentage of deliveries made with a gas limit around what the message needs
	VestingPct          int  // percentage of configurations in which user account 3 is a vesting account with locked coins
	HostilePct          int  // percentage of genesis draws allowed to be feature-hostile (fee > funds, empty allowlist)
	Hashers             []HasherSpec
	Custom              map[string]func(w *World)
	kinds               []string
	cum                 []int
	total               int
}

func (p *Profile) prepare() {
	if p.kinds != nil {
		return
	}
	for k := range p.Weights {
		if p.Weights[k] > 0 {
			p.kinds = append(p.kinds, k)
		}
	}
	sort.Strings(p.kinds)
	for _, k := range p.kinds {
		p.total += p.Weights[k]
		p.cum = append(p.cum, p.total)
	}
	if p.InvalidPct == 0 {
		p.InvalidPct = 12
	}
}

// DrawKind draws a weighted step kind.
func (p *Profile) DrawKind(t *rapid.T) string { return p.drawKind(t) }

func (p *Profile) drawKind(t *rapid.T) string {
	p.prepare()
	x := uniform2(t, "kind", p.total)
	i := sort.SearchInts(p.cum, x+1)
	return p.kinds[i]
}

// ---- draw helpers ----
//
// rapid's integer generators are deliberately biased towards small values
// (good for sizes, wrong for weighted choices: IntRange(0,99) < 12 is true far
// more often than 12%). Choices therefore draw a raw Uint64 and mix it; the raw
// value 0 (what the shrinker aims for) maps to choice 0 / "false", so a shrunk
// history uses the default branches.

func mix64(x uint64) uint64 {
	x += 0x9e3779b97f4a7c15
	x = (x ^ (x >> 30)) * 0xbf58476d1ce4e5b9
	x = (x ^ (x >> 27)) * 0x94d049bb133111eb
	return x ^ (x >> 31)
}

func uniform(t *rapid.T, label string, n int) int {
	if n <= 1 {
		return 0
	}
	u := rapid.Uint64().Draw(t, label)
	if u == 0 {
		return 0
	}
	return int(mix64(u) % uint64(n))
}

// uniform2 uses two raw draws so that the small-value hot spots of a single
// draw do not favour particular choices (used for step kinds).
func uniform2(t *rapid.T, label string, n int) int {
	if n <= 1 {
		return 0
	}
	u := rapid.Uint64().Draw(t, label)
	v := rapid.Uint64().Draw(t, label+"'")
	if u == 0 && v == 0 {
		return 0
	}
	return int(mix64(mix64(u)+v) % uint64(n))
}

func (w *World) chance(label string, pct int) bool {
	u := rapid.Uint64().Draw(w.T, label)
	if u == 0 {
		return false
	}
	return int(mix64(u)%100) < pct
}

func (w *World) intn(label string, n int) int {
	return uniform(w.T, label, n)
}

// count draws a small list length: 1 (60%), 2 (28%), 3 (12%).
func (w *World) count(label string) int {
	x := w.intn(label, 100)
	switch {
	case x < 60:
		return 1
	case x < 88:
		return 2
	}
	return 3
}

// Intn and PickString are exported for custom steps owned by monitors.
func (w *World) Intn(label string, n int) int { return w.intn(label, n) }
func (w *World) PickString(label string, xs []string) string {
	return xs[w.intn(label, len(xs))]
}

func (w *World) offState(label string) bool { return w.chance(label+"?off", w.Profile.InvalidPct) }

func pickOf[T any](w *World, label string, xs []T) T {
	return xs[w.intn(label, len(xs))]
}

// AddrStr renders an address; rarely in upper case (valid bech32 too).
func (w *World) AddrStr(label string, a sdk.AccAddress) string {
	s := a.String()
	if w.chance(label+"?upper", 2) {
		return strings.ToUpper(s)
	}
	return s
}

func (w *World) isUser(addr []byte) bool {
	for _, a := range w.Accts {
		if string(a) == string(addr) {
			return true
		}
	}
	return false
}

func (w *World) anyAcct(label string) sdk.AccAddress {
	return w.Accts[w.intn(label, len(w.Accts))]
}

// anyTarget is a user account, or rarely a module account / the authority.
func (w *World) anyTarget(label string) sdk.AccAddress {
	if w.chance(label+"?mod", 6) {
		return pickOf(w, label+"mod", []sdk.AccAddress{chain.Authority(), chain.EcoModuleAddr(), chain.BasketModuleAddr(), chain.FeePoolAddr()})
	}
	return w.anyAcct(label)
}

// roleSigner returns the role holder most of the time, otherwise any account
// (former holders and strangers are in the same small pool).
func (w *World) roleSigner(label string, holder []byte) sdk.AccAddress {
	if holder != nil && !w.chance(label+"?stranger", 20) {
		return sdk.AccAddress(holder)
	}
	if w.chance(label+"?authority", 10) {
		return chain.Authority()
	}
	return w.anyAcct(label)
}

func (w *World) authority(label string) string {
	if w.chance(label+"?notauth", 10) {
		return w.anyAcct(label).String()
	}
	return chain.Authority().String()
}

var jurisdictions = []string{"US", "US-WA", "US-WA 98225", "KE", "FR-IDF 75001"}

func (w *World) jurisdiction(label string) string {
	if w.chance(label+"?bad", 2) {
		return pickOf(w, label+"bad", []string{"", "usa", "U", "US-"})
	}
	return pickOf(w, label, jurisdictions)
}

var metas = []string{"m", "regen:13toVgf5UjYBz6J29ZJhTVyBbhkQkSh7ZdKWzc4XEZ4cpSHvqqF4C8.rdf", "{\"k\":\"v\"}", "métadonnées ✓"}

func (w *World) metadata(label string, allowEmpty bool) string {
	x := w.intn(label, 100)
	switch {
	case x >= 97:
		return strings.Repeat("x", 256)
	case x >= 96:
		return strings.Repeat("y", 257)
	case x >= 88:
		if allowEmpty {
			return ""
		}
		return "m"
	}
	return metas[x%len(metas)]
}

func (w *World) reason(label string) string {
	x := w.intn(label, 100)
	switch {
	case x >= 99:
		return strings.Repeat("r", 513)
	case x >= 97:
		return strings.Repeat("r", 512)
	case x < 30:
		return ""
	}
	return "offsetting emissions"
}

// ---- amounts ----

var fixedAmounts = []string{"1", "2", "10", "0.5", "2.5", "0.000001", "100", "7.123456", "1000", "3.3", "0.1"}
var oddForms = []string{"+5", "5.0", "05", "1e1", "2.5E-1", "1E+2", "0.50", "1.000000", ".5", "5."}
var badAmounts = []string{"", "0", "-1", "0.0000001", "1.0000000", "abc", "1e-7", "NaN", "Infinity", "0.0", "-0", "1e100"}
var hugeAmounts = []string{"10000000000000000000", "9223372036854775808", "9223372036854775807", "18446744073709551616", "4611686018427387904", "1e20", "100000000000000000000", "123456789012345678901234.567891", "1e29", "1e30", "99999999999999999999999999999.999999", "1E+33"}

// Amount draws a credit amount string. avail (may be nil) biases towards the
// boundary of what the signer has.
func (w *World) Amount(label string, avail *big.Rat) string {
	a := w.amount0(label, avail)
	if w.chance(label+"?respell", 6) {
		return w.Respell(label+"sp", a)
	}
	return a
}

// Respell returns another spelling of the same decimal number: zeros appended beyond the
// credit precision, exponent notation, a sign, leading zeros. Whether the code accepts the
// spelling is its business; if it does, the value it uses must be the value written.
func (w *World) Respell(label, a string) string {
	r, ok := new(big.Rat).SetString(a)
	if !ok || strings.ContainsAny(a, "eExX_/") || strings.HasPrefix(a, "+") || strings.HasPrefix(a, "-") {
		return a
	}
	_ = r
	w.Flags["respelled-amount"] = true
	zeros := []int{1, 2, 6, 7, 12, 18}[w.intn(label+"z", 6)]
	switch w.intn(label, 6) {
	case 1: // trailing zeros (beyond six decimals for most draws)
		if strings.Contains(a, ".") {
			return a + strings.Repeat("0", zeros)
		}
		return a + "." + strings.Repeat("0", zeros)
	case 2: // exponent form, mantissa without a point: 130 -> 13e1, 2.5 -> 25e-1
		ip, fp := a, ""
		if i := strings.IndexByte(a, '.'); i >= 0 {
			ip, fp = a[:i], a[i+1:]
		}
		digits := strings.TrimLeft(ip+fp, "0")
		exp := -len(fp)
		for len(digits) > 1 && strings.HasSuffix(digits, "0") {
			digits = digits[:len(digits)-1]
			exp++
		}
		if digits == "" {
			return a
		}
		return fmt.Sprintf("%se%d", digits, exp)
	case 3: // exponent form with a point: 130 -> 1.30e2
		ip, fp := a, ""
		if i := strings.IndexByte(a, '.'); i >= 0 {
			ip, fp = a[:i], a[i+1:]
		}
		ip = strings.TrimLeft(ip, "0")
		if len(ip) < 2 {
			return a + "e0"
		}
		return ip[:1] + "." + ip[1:] + fp + fmt.Sprintf("E+%d", len(ip)-1)
	case 4:
		return "+" + a
	case 5:
		return "00" + a
	}
	if strings.Contains(a, ".") {
		return a + strings.Repeat("0", zeros)
	}
	return a + "." + strings.Repeat("0", zeros)
}

// MutateStr derives a near miss from a valid identifier: a proper prefix, an extension, another
// letter case, or the same text with a blank at one end.
func (w *World) MutateStr(label, s string) string {
	if s == "" {
		return s
	}
	switch w.intn(label, 7) {
	case 0:
		return s[:len(s)-1]
	case 1:
		return s[:(len(s)+1)/2]
	case 2:
		return s + "2"
	case 3:
		return strings.ToUpper(s)
	case 4:
		return s + " "
	case 5:
		return " " + s
	}
	return s + "\t"
}

func (w *World) amount0(label string, avail *big.Rat) string {
	x := w.intn(label, 100)
	if avail != nil && avail.Sign() > 0 && x < 30 && w.chance(label+"?rel", 70) {
		x = 40
	}
	switch {
	case x < 30:
		return pickOf(w, label+"fix", fixedAmounts)
	case x < 55 && avail != nil && avail.Sign() > 0:
		switch w.intn(label+"rel", 6) {
		case 0:
			return ref.RatString(avail)
		case 1:
			return ref.RatString(new(big.Rat).Add(avail, big.NewRat(1, 1000000)))
		case 2:
			h := truncTo6(new(big.Rat).Quo(avail, big.NewRat(2, 1)))
			if h.Sign() > 0 {
				return ref.RatString(h)
			}
			return ref.RatString(avail)
		case 3:
			d := new(big.Rat).Sub(avail, big.NewRat(1, 1000000))
			if d.Sign() > 0 {
				return ref.RatString(d)
			}
			return ref.RatString(avail)
		case 4:
			h := truncTo6(new(big.Rat).Quo(avail, big.NewRat(3, 1)))
			if h.Sign() > 0 {
				return ref.RatString(h)
			}
			return ref.RatString(avail)
		default:
			h := truncTo6(new(big.Rat).Quo(avail, big.NewRat(10, 1)))
			if h.Sign() > 0 {
				return ref.RatString(h)
			}
			return ref.RatString(avail)
		}
	case x < 75 && avail != nil && avail.Sign() > 0 && w.chance(label+"?frac", 80):
		k := 1 + w.intn(label+"permille", 1000)
		h := truncTo6(new(big.Rat).Mul(avail, big.NewRat(int64(k), 1000)))
		if h.Sign() > 0 {
			return ref.RatString(h)
		}
		return ref.RatString(avail)
	case x < 75:
		ip := rapid.IntRange(0, 5000).Draw(w.T, label+"int")
		fp := rapid.IntRange(0, 999999).Draw(w.T, label+"frac")
		if w.chance(label+"?whole", 40) {
			fp = 0
		}
		if ip == 0 && fp == 0 {
			ip = 1
		}
		if fp == 0 {
			return fmt.Sprintf("%d", ip)
		}
		return strings.TrimRight(fmt.Sprintf("%d.%06d", ip, fp), "0")
	case x < 82:
		return pickOf(w, label+"odd", oddForms)
	case x < 88:
		G.Label("amount>=1e20")
		w.Flags["huge-amount"] = true
		return pickOf(w, label+"huge", hugeAmounts)
	case x < 88+w.Profile.InvalidPct/2:
		return pickOf(w, label+"bad", badAmounts)
	}
	return pickOf(w, label+"fix2", fixedAmounts)
}

func truncTo6(r *big.Rat) *big.Rat {
	x := new(big.Rat).Mul(r, new(big.Rat).SetInt(ref.Pow10(6)))
	i := ref.TruncInt(x)
	return new(big.Rat).SetFrac(i, ref.Pow10(6))
}

// ---- dates ----

var datePool = []time.Time{
	time.Date(1969, 12, 31, 23, 59, 59, 999999999, time.UTC),
	time.Unix(0, 0).UTC(),
	time.Unix(0, 1).UTC(),
	time.Date(1950, 6, 1, 0, 0, 0, 0, time.UTC),
	time.Date(2000, 1, 1, 0, 0, 0, 0, time.UTC),
	time.Date(2015, 1, 1, 0, 0, 0, 0, time.UTC),
	time.Date(2019, 12, 31, 23, 59, 59, 0, time.UTC),
	time.Date(2020, 1, 1, 0, 0, 0, 0, time.UTC),
	time.Date(2021, 6, 15, 12, 0, 0, 0, time.UTC),
	time.Date(2022, 1, 1, 0, 0, 0, 0, time.UTC),
	time.Date(2023, 11, 14, 22, 13, 20, 0, time.UTC),
	time.Date(9999, 12, 31, 23, 59, 59, 0, time.UTC),
	time.Date(1, 1, 1, 0, 0, 0, 0, time.UTC),
}

// StartEnd draws a batch start and end date (start <= end unless off-state).
func (w *World) StartEnd(label string) (*time.Time, *time.Time) {
	s := pickOf(w, label+"start", datePool[4:11])
	if w.chance(label+"?anydate", 40) {
		s = pickOf(w, label+"startany", datePool)
	}
	if w.intn(label+"?subsec", 10) == 9 {
		s = s.Add(pickOf(w, label+"subsec", []time.Duration{1, 250 * time.Millisecond, 999999999}))
	}
	var e time.Time
	eq := 2
	if w.Profile.EqualDatesPct > 0 {
		eq = w.Profile.EqualDatesPct
	}
	switch x := w.intn(label+"endk", 100); {
	case x >= 100-eq: // equal dates: accepted by the message validator (known finding F1 for C09)
		e = s
		w.Flags["equal-dates"] = true
	case x >= 99-eq && w.offState(label):
		e = s.Add(-time.Second)
	case x < 60:
		e = s.AddDate(1, 0, 0)
		if e.Year() > 9999 {
			e = s
			w.Flags["equal-dates"] = true
		}
	default:
		e = s.Add(time.Duration(rapid.IntRange(1, 400*24).Draw(w.T, label+"hours")) * time.Hour)
		if e.Year() > 9999 {
			e = s
			w.Flags["equal-dates"] = true
		}
	}
	return &s, &e
}

// ---- state picks ----

type balRef struct {
	Addr     sdk.AccAddress
	Batch    *baseapi.Batch
	Tradable *big.Rat
	Retired  *big.Rat
	Escrowed *big.Rat
}

// balances lists rows with a positive tradable (or any, if all) balance.
func (w *World) balances(onlyTradable bool) []balRef {
	var out []balRef
	for _, b := range w.S.Balances {
		bt := w.S.BatchByKey(b.BatchKey)
		if bt == nil {
			continue
		}
		t, r, e := ref.MustRat(b.TradableAmount), ref.MustRat(b.RetiredAmount), ref.MustRat(b.EscrowedAmount)
		if onlyTradable && t.Sign() <= 0 {
			continue
		}
		if !w.isUser(b.Address) {
			continue // module accounts cannot sign
		}
		out = append(out, balRef{sdk.AccAddress(b.Address), bt, t, r, e})
	}
	// inside a speculative branch: mostly the holdings of the batches the branch itself has issued
	if w.inBranch && len(w.brNew.batches) > 0 && w.intn("bal?new", 5) >= 2 {
		isNew := map[string]bool{}
		for _, d := range w.brNew.batches {
			isNew[d] = true
		}
		var only []balRef
		for _, b := range out {
			if isNew[b.Batch.Denom] {
				only = append(only, b)
			}
		}
		if len(only) > 0 {
			return only
		}
	}
	return out
}

var fakeDenoms = []string{"C01-001-20200101-20210101-001", "C99-999-20200101-20210101-999", "ZZZ01-001-19700101-19700101-001", "C01-001-20200101-20210101-0011"}

// pickHolding returns a (holder, batch, tradable) mostly from state.
func (w *World) pickHolding(label string) (sdk.AccAddress, string, *big.Rat) {
	bs := w.balances(true)
	if len(bs) > 0 && !w.offState(label) {
		b := pickOf(w, label, bs)
		return b.Addr, b.Batch.Denom, b.Tradable
	}
	// off-state: a random account and either a real batch it may not hold or a fake denom
	a := w.anyAcct(label + "acct")
	if len(w.S.Batches) > 0 && w.chance(label+"?realbatch", 70) {
		bt := pickOf(w, label+"batch", w.S.Batches)
		t, _, _ := w.S.Balance(a, bt.Key)
		return a, bt.Denom, t
	}
	return a, pickOf(w, label+"fake", fakeDenoms), nil
}

// phantom returns (one draw in twelve, when there is one) an identifier that was created only inside a discarded
// branch. The normal branch is choice 0.
func (w *World) phantom(label string, pool []string) (string, bool) {
	if len(pool) == 0 || w.intn(label+"?phantom", 9) != 8 {
		return "", false
	}
	w.Flags["phantom-id-used"] = true
	return pickOf(w, label+"phantom", pool), true
}

func (w *World) pickBatchDenom(label string) (string, *baseapi.Batch) {
	if d, ok := w.phantom(label, w.phBatches); ok {
		return d, nil
	}
	if d, ok := w.branchNew(label, w.brNew.batches); ok {
		return d, w.S.BatchByDenom(d)
	}
	if len(w.S.Batches) > 0 && !w.offState(label) {
		b := pickOf(w, label, w.S.Batches)
		return b.Denom, b
	}
	return pickOf(w, label+"fake", fakeDenoms), nil
}

func (w *World) pickClassID(label string) (string, *baseapi.Class) {
	if d, ok := w.phantom(label, w.phClasses); ok {
		return d, nil
	}
	if d, ok := w.branchNew(label, w.brNew.classes); ok {
		for _, c := range w.S.Classes {
			if c.Id == d {
				return d, c
			}
		}
	}
	if len(w.S.Classes) > 0 && !w.offState(label) {
		c := pickOf(w, label, w.S.Classes)
		return c.Id, c
	}
	return pickOf(w, label+"fake", []string{"C01", "C99", "ZZZ01", "C011", "BIO01"}), nil
}

func (w *World) pickProjectID(label string) (string, *baseapi.Project) {
	if d, ok := w.phantom(label, w.phProjects); ok {
		return d, nil
	}
	if d, ok := w.branchNew(label, w.brNew.projects); ok {
		for _, c := range w.S.Projects {
			if c.Id == d {
				return d, c
			}
		}
	}
	if len(w.S.Projects) > 0 && !w.offState(label) {
		p := pickOf(w, label, w.S.Projects)
		return p.Id, p
	}
	return pickOf(w, label+"fake", []string{"C01-001", "C99-999", "C01-0011"}), nil
}

func (w *World) issuersOf(classKey uint64) [][]byte {
	var out [][]byte
	for _, ci := range w.S.ClassIssuers {
		if ci.ClassKey == classKey {
			out = append(out, ci.Issuer)
		}
	}
	return out
}

func (w *World) creditTypeAbbrev(label string) string {
	if d, ok := w.phantom(label, w.phCreditTypes); ok {
		return d
	}
	if d, ok := w.branchNew(label, w.brNew.creditTypes); ok {
		return d
	}
	if len(w.S.CreditTypes) > 0 && !w.offState(label) {
		return pickOf(w, label, w.S.CreditTypes).Abbreviation
	}
	return pickOf(w, label+"fake", []string{"C", "BIO", "XX", "ZZZ", "c", "ABCD"})
}

// feeFor returns the fee coin to offer for a required fee (nil = none set).
func (w *World) offerFee(label string, required *sdk.Coin, payer sdk.AccAddress) *sdk.Coin {
	x := w.intn(label, 100)
	if required == nil || required.Amount.IsNil() {
		switch {
		case x < 70:
			return nil
		default:
			c := sdk.NewInt64Coin(pickOf(w, label+"d", BankDenoms[:3]), int64(1+w.intn(label+"a", 50)))
			return &c
		}
	}
	switch {
	case x < 70:
		c := *required
		return &c
	case x < 80:
		c := sdk.NewCoin(required.Denom, required.Amount.AddRaw(int64(1+w.intn(label+"more", 1000))))
		return &c
	case x < 87:
		if required.Amount.GT(sdk.OneInt()) {
			c := sdk.NewCoin(required.Denom, required.Amount.SubRaw(1))
			return &c
		}
		return nil
	case x < 92:
		return nil
	case x < 96:
		c := sdk.NewCoin(pickOf(w, label+"od", BankDenoms), required.Amount)
		return &c
	default:
		c := sdk.NewCoin(required.Denom, sdk.ZeroInt())
		return &c
	}
}

func coinFromJSONish(denom, amount string) *sdk.Coin {
	if denom == "" && amount == "" {
		return nil
	}
	a, ok := sdk.NewIntFromString(amount)
	if !ok {
		return nil
	}
	return &sdk.Coin{Denom: denom, Amount: a}
}

// RequiredClassFee reads the configured class fee from the snapshot.
func (w *World) RequiredClassFee() *sdk.Coin {
	if len(w.S.ClassFee) == 0 || w.S.ClassFee[0].Fee == nil {
		return nil
	}
	f := w.S.ClassFee[0].Fee
	return coinFromJSONish(f.Denom, f.Amount)
}

func (w *World) RequiredBasketFee() *sdk.Coin {
	if len(w.S.BasketFee) == 0 || w.S.BasketFee[0].Fee == nil {
		return nil
	}
	f := w.S.BasketFee[0].Fee
	return coinFromJSONish(f.Denom, f.Amount)
}

func mustJSON(v interface{}) json.RawMessage {
	bz, err := json.Marshal(v)
	if err != nil {
		panic(err)
	}
	return bz
}
