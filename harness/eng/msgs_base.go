package eng

import (
	"fmt"
	"math/big"
	"strings"

	sdk "github.com/cosmos/cosmos-sdk/types"
	banktypes "github.com/cosmos/cosmos-sdk/x/bank/types"

	basetypes "github.com/regen-network/regen-ledger/x/ecocredit/v3/base/types/v1"

	"verif/chain"
)

// Gen is a message generator.
type Gen func(w *World) sdk.Msg

// Gens maps step kinds to message generators.
var Gens = map[string]Gen{}

func init() {
	Gens["createClass"] = genCreateClass
	Gens["createProject"] = genCreateProject
	Gens["createBatch"] = genCreateBatch
	Gens["mint"] = genMint
	Gens["seal"] = genSeal
	Gens["send"] = genSend
	Gens["retire"] = genRetire
	Gens["cancel"] = genCancel
	Gens["updClassAdmin"] = genUpdClassAdmin
	Gens["updClassIssuers"] = genUpdClassIssuers
	Gens["updClassMeta"] = genUpdClassMeta
	Gens["updProjectAdmin"] = genUpdProjectAdmin
	Gens["updProjectMeta"] = genUpdProjectMeta
	Gens["updBatchMeta"] = genUpdBatchMeta
	Gens["bridge"] = genBridge
	Gens["bridgeReceive"] = genBridgeReceive
	Gens["addCreditType"] = genAddCreditType
	Gens["setAllowlist"] = genSetAllowlist
	Gens["addCreator"] = genAddCreator
	Gens["removeCreator"] = genRemoveCreator
	Gens["updClassFee"] = genUpdClassFee
	Gens["addBridgeChain"] = genAddBridgeChain
	Gens["removeBridgeChain"] = genRemoveBridgeChain
	Gens["burnRegen"] = genBurnRegen
	Gens["unimplemented"] = genUnimplemented
	Gens["bankSend"] = genBankSend
}

func genCreateClass(w *World) sdk.Msg {
	admin := w.anyAcct("admin")
	// when the allowlist is on, prefer an allow-listed creator
	if len(w.S.Allowlist) > 0 && w.S.Allowlist[0].Enabled && len(w.S.AllowedCreators) > 0 && !w.chance("?notlisted", 25) {
		admin = sdk.AccAddress(pickOf(w, "listed", w.S.AllowedCreators).Address)
	}
	n := 1 + w.intn("nissuers", 3)
	var issuers []string
	seen := map[string]bool{}
	for i := 0; i < n; i++ {
		a := w.anyAcct(fmt.Sprintf("issuer%d", i))
		if seen[a.String()] && !w.offState("dupissuer") {
			continue
		}
		seen[a.String()] = true
		issuers = append(issuers, w.AddrStr("issuerstr", a))
	}
	if w.chance("?adminissuer", 70) && !seen[admin.String()] {
		issuers = append(issuers, admin.String())
	}
	return &basetypes.MsgCreateClass{
		Admin:            w.AddrStr("adminstr", admin),
		Issuers:          issuers,
		Metadata:         w.metadata("meta", true),
		CreditTypeAbbrev: w.creditTypeAbbrev("ct"),
		Fee:              w.offerFee("fee", w.RequiredClassFee(), admin),
	}
}

var referenceIDs = []string{"", "", "VCS-001", "VCS-002", "ref 3", "R", strings.Repeat("r", 32)}

// referenceID is a pool id or (one draw in eight) a near miss of one: reference ids are free text
// of up to 32 characters, so "VCS-001 " and "VCS-00" are ids of their own.
func (w *World) referenceID(label string, pool []string) string {
	rid := pickOf(w, label, pool)
	if len(rid) > 0 && len(rid) < 31 && w.chance(label+"?near", 12) {
		w.Flags["near-miss-reference-id"] = true
		return w.MutateStr(label+"mut", rid)
	}
	return rid
}

func genCreateProject(w *World) sdk.Msg {
	cid, cls := w.pickClassID("class")
	var holder []byte
	if cls != nil {
		if is := w.issuersOf(cls.Key); len(is) > 0 {
			holder = pickOf(w, "issuer", is)
		}
	}
	admin := w.roleSigner("admin", holder)
	rid := w.referenceID("refid", referenceIDs)
	if w.chance("?badref", 2) {
		rid = pickOf(w, "badref", []string{strings.Repeat("r", 33), "nul\x00inside"})
	}
	return &basetypes.MsgCreateProject{
		Admin:        w.AddrStr("adminstr", admin),
		ClassId:      cid,
		Metadata:     w.metadata("meta", true),
		Jurisdiction: w.jurisdiction("jur"),
		ReferenceId:  rid,
	}
}

var originIDs = []string{
	"0x7a70692a348e8688f54ab2bdfe87d925d8cc88932520492a11eaa02dc128243e",
	"0x8b81703b459f9799f65bc3cef098e036e9dd99a43631503b22fbb13ed2393540",
	"0x7A70692A348E8688F54AB2BDFE87D925D8CC88932520492A11EAA02DC128243E",
	"0x1111111111111111111111111111111111111111111111111111111111111111",
	"tx-1", "TX 2", "order_77",
}
var originSources = []string{"polygon", "Polygon", "POLYGON", "ethereum", "other chain", "celo"}
var originContracts = []string{
	"0x06012c8cf97BEaD5deAe237070F9587f8E7A266d",
	"0x06012c8cf97bead5deae237070f9587f8e7a266d",
	"0xdAC17F958D2ee523a2206206994597C13D831ec7",
	"0x0000000000000000000000000000000000000001",
	"0x0000000000000000000000000000000000000000",
	"0xFFfFfFffFFfffFFfFFfFFFFFffFFFffffFfFFFfF",
}

func (w *World) originTx(label string, needContract bool, ethOnly bool) *basetypes.OriginTx {
	ids := originIDs
	if ethOnly && !w.offState(label+"id") {
		ids = originIDs[:4]
	}
	o := &basetypes.OriginTx{
		Id:     pickOf(w, label+"id", ids),
		Source: pickOf(w, label+"src", originSources),
	}
	if w.chance(label+"?fresh", 45) { // a fresh id so that issuing is not always a replay
		o.Id = fmt.Sprintf("0x%064x", 1000+w.StepIdx)
		if !ethOnly && w.chance(label+"?plain", 30) {
			o.Id = fmt.Sprintf("tx-%d", 1000+w.StepIdx)
		}
	}
	if needContract || w.chance(label+"?contract", 50) {
		o.Contract = pickOf(w, label+"contract", originContracts)
	}
	if w.chance(label+"?note", 20) {
		o.Note = "bridged"
	}
	return o
}

func (w *World) issuance(label string) []*basetypes.BatchIssuance {
	n := w.count(label + "n")
	var out []*basetypes.BatchIssuance
	for i := 0; i < n; i++ {
		is := &basetypes.BatchIssuance{Recipient: w.AddrStr(label+"rcpt", w.anyTarget(fmt.Sprintf("%srcp%d", label, i)))}
		switch w.intn(fmt.Sprintf("%smode%d", label, i), 4) {
		case 0:
			is.TradableAmount = w.Amount(label+"t", nil)
		case 1:
			is.RetiredAmount = w.Amount(label+"r", nil)
			is.RetirementJurisdiction = w.jurisdiction(label + "jur")
			is.RetirementReason = w.reason(label + "reason")
		default:
			is.TradableAmount = w.Amount(label+"t", nil)
			is.RetiredAmount = w.Amount(label+"r", nil)
			is.RetirementJurisdiction = w.jurisdiction(label + "jur")
		}
		out = append(out, is)
	}
	return out
}

func genCreateBatch(w *World) sdk.Msg {
	pid, prj := w.pickProjectID("project")
	var holder []byte
	if prj != nil {
		if is := w.issuersOf(prj.ClassKey); len(is) > 0 {
			holder = pickOf(w, "issuer", is)
		}
	}
	s, e := w.StartEnd("dates")
	// issue again what a discarded transaction issued: same project, same dates (and, the sequence having been
	// rolled back, the same denom) — normally under another table key, other batches having been issued since
	if len(w.phBatchInfo) > 0 && !w.inBranch && w.intn("?reissue", 6) == 5 {
		pb := pickOf(w, "reissue", w.phBatchInfo)
		for _, p := range w.S.Projects {
			if p.Id == pb.ProjectID {
				st, en := pb.Start, pb.End
				pid, prj, s, e = p.Id, p, &st, &en
				holder = nil
				if is := w.issuersOf(p.ClassKey); len(is) > 0 {
					holder = pickOf(w, "reissuer", is)
				}
				w.Flags["reissue-of-discarded-batch"] = true
			}
		}
	}
	issuer := w.roleSigner("issuer", holder)
	m := &basetypes.MsgCreateBatch{
		Issuer:    w.AddrStr("issuerstr", issuer),
		ProjectId: pid,
		Issuance:  w.issuance("iss"),
		Metadata:  w.metadata("meta", false),
		StartDate: s,
		EndDate:   e,
		Open:      w.chance("?open", 60),
	}
	if w.chance("?origin", 35) {
		m.OriginTx = w.originTx("otx", false, false)
	}
	// the optional class_id field (since revision 3): the project's class, another class (one the signer
	// issues for, if any), or an unknown id
	if w.chance("?classid", 25) && len(w.S.Classes) > 0 {
		w.Flags["create-batch-with-class-id"] = true
		switch w.intn("classidmode", 4) {
		case 0, 1:
			if prj != nil {
				if c := w.S.ClassByKey(prj.ClassKey); c != nil {
					m.ClassId = c.Id
				}
			}
		case 2:
			var own []string
			for _, ci := range w.S.ClassIssuers {
				if string(ci.Issuer) == string(issuer) && (prj == nil || ci.ClassKey != prj.ClassKey) {
					if c := w.S.ClassByKey(ci.ClassKey); c != nil {
						own = append(own, c.Id)
					}
				}
			}
			if len(own) > 0 {
				m.ClassId = pickOf(w, "classidown", own)
				w.Flags["create-batch-with-foreign-class-id"] = true
			} else {
				m.ClassId = pickOf(w, "classidany", w.S.Classes).Id
			}
		default:
			m.ClassId = pickOf(w, "classidfake", []string{"C999", "ZZ01", "c01", ""})
		}
	}
	return m
}

func genMint(w *World) sdk.Msg {
	denom, b := w.pickBatchDenom("batch")
	// prefer open batches
	if b != nil && !b.Open {
		for _, c := range w.S.Batches {
			if c.Open && w.chance("?preferopen", 60) {
				b, denom = c, c.Denom
				break
			}
		}
	}
	var holder []byte
	if b != nil {
		holder = b.Issuer
	}
	m := &basetypes.MsgMintBatchCredits{
		Issuer:     w.AddrStr("issuerstr", w.roleSigner("issuer", holder)),
		BatchDenom: denom,
		Issuance:   w.issuance("iss"),
		OriginTx:   w.originTx("otx", false, false),
	}
	if w.chance("?noorigin", 2) {
		m.OriginTx = nil
	}
	return m
}

func genSeal(w *World) sdk.Msg {
	denom, b := w.pickBatchDenom("batch")
	var holder []byte
	if b != nil {
		holder = b.Issuer
	}
	return &basetypes.MsgSealBatch{Issuer: w.AddrStr("issuerstr", w.roleSigner("issuer", holder)), BatchDenom: denom}
}

func genSend(w *World) sdk.Msg {
	sender, denom, avail := w.pickHolding("hold")
	rcpt := w.anyTarget("rcpt")
	n := w.count("n")
	var credits []*basetypes.MsgSend_SendCredits
	for i := 0; i < n; i++ {
		d := denom
		av := avail
		if i > 0 && w.chance("?otherbatch", 50) {
			for _, b := range w.balances(true) {
				if b.Addr.Equals(sender) && b.Batch.Denom != denom {
					d, av = b.Batch.Denom, b.Tradable
					break
				}
			}
		}
		c := &basetypes.MsgSend_SendCredits{BatchDenom: d}
		switch w.intn(fmt.Sprintf("mode%d", i), 4) {
		case 0, 1:
			c.TradableAmount = w.Amount("t", av)
		case 2:
			c.RetiredAmount = w.Amount("r", av)
			c.RetirementJurisdiction = w.jurisdiction("jur")
			c.RetirementReason = w.reason("reason")
			w.Flags["send-retired"] = true
		default:
			half := av
			if av != nil {
				half = truncTo6(new(big.Rat).Quo(av, big.NewRat(2, 1)))
			}
			c.TradableAmount = w.Amount("t", half)
			c.RetiredAmount = w.Amount("r", half)
			c.RetirementJurisdiction = w.jurisdiction("jur")
			w.Flags["send-retired"] = true
		}
		credits = append(credits, c)
	}
	rs := w.AddrStr("rcptstr", rcpt)
	if rcpt.Equals(sender) && w.chance("?selfupper", 50) {
		rs = strings.ToUpper(rcpt.String()) // same account, different string: passes the string comparison
		w.Flags["self-send-upper"] = true
	}
	return &basetypes.MsgSend{Sender: sender.String(), Recipient: rs, Credits: credits}
}

func (w *World) creditsList(label string, owner sdk.AccAddress, denom string, avail *big.Rat) []*basetypes.Credits {
	n := w.count(label + "n")
	var out []*basetypes.Credits
	for i := 0; i < n; i++ {
		d, av := denom, avail
		if i > 0 && w.chance(label+"?other", 50) {
			for _, b := range w.balances(true) {
				if b.Addr.Equals(owner) && b.Batch.Denom != denom {
					d, av = b.Batch.Denom, b.Tradable
					break
				}
			}
		}
		out = append(out, &basetypes.Credits{BatchDenom: d, Amount: w.Amount(label+"amt", av)})
	}
	return out
}

func genRetire(w *World) sdk.Msg {
	owner, denom, avail := w.pickHolding("hold")
	return &basetypes.MsgRetire{
		Owner:        w.AddrStr("ownerstr", owner),
		Credits:      w.creditsList("c", owner, denom, avail),
		Jurisdiction: w.jurisdiction("jur"),
		Reason:       w.reason("reason"),
	}
}

func genCancel(w *World) sdk.Msg {
	owner, denom, avail := w.pickHolding("hold")
	r := "no longer valid"
	if w.chance("?noreason", 3) {
		r = ""
	}
	return &basetypes.MsgCancel{
		Owner:   w.AddrStr("ownerstr", owner),
		Credits: w.creditsList("c", owner, denom, avail),
		Reason:  r,
	}
}

func genUpdClassAdmin(w *World) sdk.Msg {
	cid, cls := w.pickClassID("class")
	var holder []byte
	if cls != nil {
		holder = cls.Admin
	}
	return &basetypes.MsgUpdateClassAdmin{
		Admin:    w.AddrStr("adminstr", w.roleSigner("admin", holder)),
		ClassId:  cid,
		NewAdmin: w.AddrStr("newstr", w.anyAcct("new")),
	}
}

func genUpdClassIssuers(w *World) sdk.Msg {
	cid, cls := w.pickClassID("class")
	var holder []byte
	m := &basetypes.MsgUpdateClassIssuers{ClassId: cid}
	if cls != nil {
		holder = cls.Admin
		is := w.issuersOf(cls.Key)
		if len(is) > 0 && w.chance("?remove", 60) {
			m.RemoveIssuers = append(m.RemoveIssuers, sdk.AccAddress(pickOf(w, "rm", is)).String())
		}
	}
	if w.chance("?add", 70) || len(m.RemoveIssuers) == 0 {
		m.AddIssuers = append(m.AddIssuers, w.AddrStr("addstr", w.anyAcct("add")))
		if w.chance("?add2", 30) {
			m.AddIssuers = append(m.AddIssuers, w.anyAcct("add2").String())
		}
	}
	if w.offState("rmstranger") {
		m.RemoveIssuers = append(m.RemoveIssuers, w.anyAcct("rms").String())
	}
	m.Admin = w.AddrStr("adminstr", w.roleSigner("admin", holder))
	return m
}

func genUpdClassMeta(w *World) sdk.Msg {
	cid, cls := w.pickClassID("class")
	var holder []byte
	if cls != nil {
		holder = cls.Admin
	}
	return &basetypes.MsgUpdateClassMetadata{Admin: w.AddrStr("adminstr", w.roleSigner("admin", holder)), ClassId: cid, NewMetadata: w.metadata("meta", true)}
}

func genUpdProjectAdmin(w *World) sdk.Msg {
	pid, p := w.pickProjectID("project")
	var holder []byte
	if p != nil {
		holder = p.Admin
	}
	return &basetypes.MsgUpdateProjectAdmin{Admin: w.AddrStr("adminstr", w.roleSigner("admin", holder)), ProjectId: pid, NewAdmin: w.AddrStr("newstr", w.anyAcct("new"))}
}

func genUpdProjectMeta(w *World) sdk.Msg {
	pid, p := w.pickProjectID("project")
	var holder []byte
	if p != nil {
		holder = p.Admin
	}
	return &basetypes.MsgUpdateProjectMetadata{Admin: w.AddrStr("adminstr", w.roleSigner("admin", holder)), ProjectId: pid, NewMetadata: w.metadata("meta", true)}
}

func genUpdBatchMeta(w *World) sdk.Msg {
	denom, b := w.pickBatchDenom("batch")
	var holder []byte
	if b != nil {
		holder = b.Issuer
	}
	return &basetypes.MsgUpdateBatchMetadata{Issuer: w.AddrStr("issuerstr", w.roleSigner("issuer", holder)), BatchDenom: denom, NewMetadata: w.metadata("meta", false)}
}

var bridgeTargets = []string{"polygon", "Polygon", "POLYGON", "ethereum", "celo", "nowhere"}
var ethRecipients = []string{"0x71C7656EC7ab88b098defB751B7401B5f6d8976F", "0x000000000000000000000000000000000000dEaD"}

func genBridge(w *World) sdk.Msg {
	owner, denom, avail := w.pickHolding("hold")
	// prefer holdings in batches with a bound contract
	if len(w.S.Contracts) > 0 && w.chance("?bound", 75) {
		var cands []balRef
		for _, b := range w.balances(true) {
			for _, c := range w.S.Contracts {
				if c.BatchKey == b.Batch.Key {
					cands = append(cands, b)
				}
			}
		}
		if len(cands) > 0 {
			b := pickOf(w, "boundhold", cands)
			owner, denom, avail = b.Addr, b.Batch.Denom, b.Tradable
		}
	}
	return &basetypes.MsgBridge{
		Owner:     w.AddrStr("ownerstr", owner),
		Target:    w.chainName("target"),
		Recipient: pickOf(w, "rcpt", ethRecipients),
		Credits:   w.creditsList("c", owner, denom, avail),
	}
}

// chainName is mostly a letter-case variant of an allowed chain.
func (w *World) chainName(label string) string {
	if len(w.S.BridgeChains) > 0 && !w.chance(label+"?other", 25) {
		n := pickOf(w, label+"allowed", w.S.BridgeChains).ChainName
		switch w.intn(label+"case", 3) {
		case 1:
			return strings.ToUpper(n)
		case 2:
			return strings.ToUpper(n[:1]) + n[1:]
		}
		return n
	}
	if len(w.S.BridgeChains) > 0 && w.chance(label+"?near", 40) {
		w.Flags["near-miss-chain-name"] = true
		return w.MutateStr(label+"mut", pickOf(w, label+"allowed2", w.S.BridgeChains).ChainName)
	}
	return pickOf(w, label, bridgeTargets)
}

func genBridgeReceive(w *World) sdk.Msg {
	cid, cls := w.pickClassID("class")
	var holder []byte
	if cls != nil {
		if is := w.issuersOf(cls.Key); len(is) > 0 {
			holder = pickOf(w, "issuer", is)
		}
	}
	o := w.originTx("otx", true, true)
	if !w.chance("?anysource", 30) {
		o.Source = w.chainName("src")
	}
	// if the contract is already bound in this class, the batch issuer is the role holder
	if cls != nil {
		for _, bc := range w.S.Contracts {
			if bc.ClassKey == cls.Key && bc.Contract == o.Contract {
				if b := w.S.BatchByKey(bc.BatchKey); b != nil && !w.chance("?classissuer", 25) {
					holder = b.Issuer
				}
			}
		}
	}
	s, e := w.StartEnd("dates")
	rid := w.referenceID("refid", referenceIDs[2:])
	return &basetypes.MsgBridgeReceive{
		Issuer:  w.AddrStr("issuerstr", w.roleSigner("issuer", holder)),
		ClassId: cid,
		Project: &basetypes.MsgBridgeReceive_Project{ReferenceId: rid, Jurisdiction: w.jurisdiction("jur"), Metadata: w.metadata("pmeta", false)},
		Batch: &basetypes.MsgBridgeReceive_Batch{
			Recipient: w.AddrStr("rcptstr", w.anyTarget("rcpt")),
			Amount:    w.Amount("amt", nil),
			StartDate: s, EndDate: e,
			Metadata: w.metadata("bmeta", false),
		},
		OriginTx: o,
	}
}

func genAddCreditType(w *World) sdk.Msg {
	abbr := pickOf(w, "abbr", []string{"BIO", "KS", "C", "X", "ZZZ", "bio", "ABCD", "B"})
	name := pickOf(w, "name", []string{"biodiversity", "soil", "carbon", "x-type", ""})
	prec := uint32(6)
	if w.chance("?prec", 8) {
		prec = uint32(w.intn("prec", 10))
	}
	return &basetypes.MsgAddCreditType{Authority: w.authority("auth"), CreditType: &basetypes.CreditType{Abbreviation: abbr, Name: name, Unit: "ton", Precision: prec}}
}

func genSetAllowlist(w *World) sdk.Msg {
	return &basetypes.MsgSetClassCreatorAllowlist{Authority: w.authority("auth"), Enabled: w.chance("?on", 50)}
}

func genAddCreator(w *World) sdk.Msg {
	return &basetypes.MsgAddClassCreator{Authority: w.authority("auth"), Creator: w.AddrStr("cstr", w.anyAcct("creator"))}
}

func genRemoveCreator(w *World) sdk.Msg {
	c := w.anyAcct("creator")
	if len(w.S.AllowedCreators) > 0 && !w.offState("listed") {
		c = sdk.AccAddress(pickOf(w, "listed", w.S.AllowedCreators).Address)
	}
	return &basetypes.MsgRemoveClassCreator{Authority: w.authority("auth"), Creator: c.String()}
}

func (w *World) feeCoin(label string) *sdk.Coin {
	x := w.intn(label, 100)
	switch {
	case x < 15:
		return nil
	case x < 30:
		c := sdk.NewCoin(pickOf(w, label+"d", BankDenoms[:3]), sdk.ZeroInt())
		return &c
	case x < 40:
		c := sdk.NewInt64Coin(pickOf(w, label+"d", BankDenoms[:3]), 1)
		return &c
	case x < 50:
		c := sdk.NewCoin(DenomStake, sdk.NewInt(2_000_000_000_000)) // more than anyone holds
		return &c
	case x < 62:
		// payable amounts around and beyond the 64-bit boundaries (an 18-decimals denom)
		w.Flags["fee>=2^63"] = true
		c := sdk.NewCoin(DenomIBC, BigCoinAmount(w, label+"big"))
		return &c
	}
	c := sdk.NewInt64Coin(pickOf(w, label+"d", BankDenoms[:3]), int64(1+w.intn(label+"a", 20_000_000)))
	return &c
}

var bigCoinAmounts = []string{"9223372036854775807", "9223372036854775808", "9223372036854775809", "10000000000000000000", "18446744073709551615",
	"18446744073709551616", "18446744073709551617", "20000000000000000000", "100000000000000000000", "1000000000000000000000000"}

// BigCoinAmount draws a coin amount at or beyond 2^63 (still far below what the accounts hold of the IBC denom).
func BigCoinAmount(w *World, label string) sdk.Int {
	x, _ := sdk.NewIntFromString(pickOf(w, label, bigCoinAmounts))
	return x
}

func genUpdClassFee(w *World) sdk.Msg {
	return &basetypes.MsgUpdateClassFee{Authority: w.authority("auth"), Fee: w.feeCoin("fee")}
}

func genAddBridgeChain(w *World) sdk.Msg {
	return &basetypes.MsgAddAllowedBridgeChain{Authority: w.authority("auth"), ChainName: pickOf(w, "chain", bridgeTargets)}
}

func genRemoveBridgeChain(w *World) sdk.Msg {
	return &basetypes.MsgRemoveAllowedBridgeChain{Authority: w.authority("auth"), ChainName: pickOf(w, "chain", bridgeTargets)}
}

func genBurnRegen(w *World) sdk.Msg {
	return &basetypes.MsgBurnRegen{Burner: w.AddrStr("b", w.anyAcct("burner")), Amount: pickOf(w, "amt", []string{"1", "1000", "1000000000000", "1000000000001", "0", "-5", "1.5"}), Reason: w.reason("reason")}
}

func genUnimplemented(w *World) sdk.Msg {
	a := w.anyAcct("a").String()
	pid, _ := w.pickProjectID("p")
	cid, _ := w.pickClassID("c")
	switch w.intn("which", 4) {
	case 0:
		return &basetypes.MsgCreateUnregisteredProject{Admin: a, Jurisdiction: "US", Metadata: "m"}
	case 1:
		return &basetypes.MsgCreateOrUpdateApplication{ProjectAdmin: a, ProjectId: pid, ClassId: cid, Metadata: "m"}
	case 2:
		return &basetypes.MsgUpdateProjectEnrollment{Issuer: a, ProjectId: pid, ClassId: cid, NewStatus: basetypes.ProjectEnrollmentStatus_PROJECT_ENROLLMENT_STATUS_ACCEPTED}
	default:
		return &basetypes.MsgUpdateProjectFee{Authority: chain.Authority().String(), Fee: w.feeCoin("fee")}
	}
}

func genBankSend(w *World) sdk.Msg {
	from := w.anyAcct("from")
	to := w.anyTarget("to")
	// choose a denom the sender holds, basket tokens preferred
	var denoms []string
	for d := range w.S.Bank[from.String()] {
		denoms = append(denoms, d)
	}
	sortStrings(denoms)
	denom := DenomStake
	var bal *big.Int
	if len(denoms) > 0 {
		var basketDenoms []string
		for _, d := range denoms {
			if strings.HasPrefix(d, "eco.") {
				basketDenoms = append(basketDenoms, d)
			}
		}
		if len(basketDenoms) > 0 && w.chance("?basket", 70) {
			denom = pickOf(w, "bd", basketDenoms)
			w.Flags["basket-token-transfer"] = true
		} else {
			denom = pickOf(w, "d", denoms)
		}
		bal = w.S.BankOf(from.String(), denom)
	}
	amt := sdk.NewInt(int64(1 + w.intn("amt", 1_000_000)))
	if bal != nil && bal.Sign() > 0 {
		switch w.intn("rel", 4) {
		case 0:
			amt = sdk.NewIntFromBigInt(bal)
		case 1:
			amt = sdk.NewIntFromBigInt(new(big.Int).Add(bal, big.NewInt(1)))
		case 2:
			h := new(big.Int).Quo(bal, big.NewInt(2))
			if h.Sign() > 0 {
				amt = sdk.NewIntFromBigInt(h)
			}
		}
	}
	return &banktypes.MsgSend{FromAddress: from.String(), ToAddress: to.String(), Amount: sdk.NewCoins(sdk.NewCoin(denom, amt))}
}
