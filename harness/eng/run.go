package eng

import (
	"fmt"
	"math/big"
	"time"

	sdk "github.com/cosmos/cosmos-sdk/types"
	"pgregory.net/rapid"

	basetypes "github.com/regen-network/regen-ledger/x/ecocredit/v3/base/types/v1"
	baskettypes "github.com/regen-network/regen-ledger/x/ecocredit/v3/basket/types/v1"
	markettypes "github.com/regen-network/regen-ledger/x/ecocredit/v3/marketplace/types/v1"
)

// Profile extras used by generators.
type profileExtras struct{}

// RunHistory is the body of a stateful rapid property: draw a configuration,
// then a history of steps, with the monitors' oracles run after every step.
func RunHistory(t *rapid.T, prof *Profile, mons ...Monitor) {
	prof.prepare()
	g := GenGenesis(t, prof)
	if prof.Hashers != nil {
		g.Hasher = prof.Hashers[uniform(t, "g.hasher", len(prof.Hashers))]
		if g.Hasher.Kind != "" {
			g.Notes = append(g.Notes, fmt.Sprintf("hasher=%+v", g.Hasher))
		}
	}
	w := NewWorld(t, g, prof, func(f string, a ...interface{}) { t.Fatalf(f, a...) }, mons...)
	prelude := prof.Prelude
	step := 0
	t.Repeat(map[string]func(*rapid.T){
		"step": func(t *rapid.T) {
			w.T = t
			kind := ""
			if step < len(prelude) {
				kind = prelude[step]
			} else {
				kind = prof.drawKind(t)
			}
			step++
			w.Step(kind)
		},
	})
	w.Finish()
}

// Step executes one step of the given kind with generated arguments.
func (w *World) Step(kind string) {
	switch kind {
	case "block":
		w.NextBlock(w.nextTime(), false)
	case "restart":
		w.NextBlock(w.nextTime(), true)
		w.Flags["restart"] = true
	case "faucet":
		a := w.anyAcct("faucet")
		d := pickOf(w, "faucetdenom", BankDenoms)
		w.Faucet(a, sdk.NewCoins(sdk.NewInt64Coin(d, int64(1+w.intn("faucetamt", 1_000_000_000)))))
	case "bulkBasket":
		w.bulkBasket()
	case "bulkOrders":
		w.bulkOrders()
	default:
		if h, ok := w.Profile.Custom[kind]; ok {
			h(w)
			return
		}
		kind = w.remap(kind)
		gen, ok := Gens[kind]
		if !ok {
			w.Fail("harness: unknown step kind %q", kind)
		}
		st := w.Deliver(kind, gen(w))
		w.Trace.SetResult(st.Res.OK, st.Res.Err)
	}
}

// nextTime draws the next block time: strictly increasing, from 1 ns to years
// ahead, with a mode that lands exactly on (or 1 ns around) a pending
// sell-order expiration.
func (w *World) nextTime() time.Time {
	bt := w.C.Time
	x := w.intn("dt", 100)
	switch {
	case x < 35 && len(w.S.SellOrders) > 0:
		var exps []time.Time
		for _, o := range w.S.SellOrders {
			if o.Expiration != nil {
				if e := o.Expiration.AsTime(); e.After(bt) {
					exps = append(exps, e)
				}
			}
		}
		if len(exps) > 0 {
			e := pickOf(w, "exp", exps)
			switch w.intn("around", 4) {
			case 0:
				if e.Add(-time.Nanosecond).After(bt) {
					return e.Add(-time.Nanosecond)
				}
			case 1:
				return e.Add(time.Nanosecond)
			}
			w.Flags["block-on-expiry"] = true
			return e
		}
	case x < 45:
		return bt.Add(time.Nanosecond)
	case x < 55:
		return bt.Add(time.Duration(1+w.intn("days", 400)) * 24 * time.Hour)
	case x < 58:
		return bt.AddDate(1+w.intn("years", 30), 0, 0)
	}
	return bt.Add(time.Duration(1+w.intn("secs", 30)) * time.Second)
}

// remap substitutes the step that creates a missing prerequisite for a step
// kind that cannot possibly succeed in the current state (construction over
// rejection); a fraction of such steps is still delivered to exercise the
// not-found paths.
func (w *World) remap(kind string) string {
	for i := 0; i < 6; i++ {
		k := w.remapOnce(kind)
		if k == kind {
			return k
		}
		kind = k
	}
	return kind
}

func (w *World) remapOnce(kind string) string {
	s := w.S
	hasHolding := func() bool {
		for _, b := range s.Balances {
			if b.TradableAmount != "0" && b.TradableAmount != "" {
				return true
			}
		}
		return false
	}
	need := ""
	switch kind {
	case "createClass":
		if len(s.Allowlist) > 0 && s.Allowlist[0].Enabled && len(s.AllowedCreators) == 0 {
			need = "addCreator"
		} else if f := w.RequiredClassFee(); f != nil && f.Amount.GT(sdk.NewInt(1_000_000_000_000)) {
			need = "updClassFee"
		}
	case "basketCreate":
		if len(s.Classes) == 0 {
			need = "createClass"
		} else if f := w.RequiredBasketFee(); f != nil && f.Amount.GT(sdk.NewInt(1_000_000_000_000)) {
			need = "updBasketFee"
		}
	case "createProject", "updClassAdmin", "updClassIssuers", "updClassMeta", "bridgeReceive":
		if len(s.Classes) == 0 {
			need = "createClass"
		} else if kind == "bridgeReceive" && len(s.BridgeChains) == 0 {
			need = "addBridgeChain"
		}
	case "createBatch", "updProjectAdmin", "updProjectMeta":
		if len(s.Projects) == 0 {
			need = "createProject"
		}
	case "mint", "seal", "updBatchMeta":
		if len(s.Batches) == 0 {
			need = "createBatch"
		}
	case "send", "retire", "cancel", "bridge", "sell":
		if !hasHolding() {
			need = "createBatch"
		} else if kind == "sell" && len(s.AllowedDenoms) == 0 {
			need = "addDenom"
		} else if kind == "bridge" && len(s.BridgeChains) == 0 {
			need = "addBridgeChain"
		} else if kind == "bridge" && len(s.Contracts) == 0 {
			need = "bridgeReceive"
		}
	case "put":
		if len(s.Baskets) == 0 {
			need = "basketCreate"
		} else if !hasHolding() {
			need = "createBatch"
		}
	case "take":
		if len(s.Baskets) == 0 {
			need = "basketCreate"
		} else if len(s.BasketBalances) == 0 {
			need = "put"
		}
	case "updCurator", "updDateCriteria":
		if len(s.Baskets) == 0 {
			need = "basketCreate"
		}
	case "updSell", "cancelSell", "buy":
		if len(s.SellOrders) == 0 {
			need = "sell"
		}
	case "registerResolver":
		if len(s.Resolvers) == 0 {
			need = "defineResolver"
		}
	}
	if need == "" {
		return kind
	}
	if _, ok := w.Profile.Weights[need]; !ok && !w.Profile.RemapAny {
		return kind
	}
	if w.chance("remap?keep", 10) {
		return kind
	}
	return need
}

// bulkBasket is a macro step: it fills one basket with 21-28 batches of one project (distinct
// start dates, deposited in scrambled order). Every message goes through Deliver, i.e. through
// the monitors, like any other. It reaches states (a basket with dozens of batches, as real
// baskets have) that 40-70 independent random steps do not.
func (w *World) bulkBasket() {
	s := w.S
	// a project whose class has an issuer among the users
	var pid, cid, ct string
	var issuer sdk.AccAddress
	for _, p := range s.Projects {
		c := s.ClassByKey(p.ClassKey)
		if c == nil {
			continue
		}
		for _, is := range w.issuersOf(c.Key) {
			if w.isUser(is) {
				pid, cid, ct, issuer = p.Id, c.Id, c.CreditTypeAbbrev, sdk.AccAddress(is)
			}
		}
	}
	if pid == "" {
		w.Step("createProject")
		return
	}
	w.Flags["bulk-basket"] = true
	holder := w.anyAcct("bulk.holder")
	n := 21 + w.intn("bulk.n", 8)
	if w.chance("bulk.huge", 12) { // beyond the default page size of list helpers (100)
		n = 101 + w.intn("bulk.n2", 6)
		w.Flags["bulk-basket>100"] = true
	}
	type item struct {
		denom string
		amt   string
	}
	var items []item
	for i := 0; i < n; i++ {
		start := time.Date(2001+w.intn(fmt.Sprintf("bulk.y%d", i), 20), time.Month(1+w.intn(fmt.Sprintf("bulk.m%d", i), 12)), 1+w.intn(fmt.Sprintf("bulk.d%d", i), 28), 0, 0, 0, 0, time.UTC)
		end := start.AddDate(1, 0, 0)
		amt := fmt.Sprintf("%d", 1+w.intn(fmt.Sprintf("bulk.a%d", i), 9))
		st := w.Deliver("createBatch", &basetypes.MsgCreateBatch{Issuer: issuer.String(), ProjectId: pid, Metadata: "bulk", StartDate: &start, EndDate: &end,
			Issuance: []*basetypes.BatchIssuance{{Recipient: holder.String(), TradableAmount: amt}}})
		if resp, ok := st.Res.RespMsg.(*basetypes.MsgCreateBatchResponse); ok && st.Res.OK {
			items = append(items, item{resp.BatchDenom, amt})
		}
	}
	curator := w.anyAcct("bulk.curator")
	name := fmt.Sprintf("K%d", 1000+w.StepIdx)
	m := &baskettypes.MsgCreate{Curator: curator.String(), Name: name, CreditTypeAbbrev: ct, AllowedClasses: []string{cid}, DisableAutoRetire: w.chance("bulk.dar", 60)}
	if f := w.RequiredBasketFee(); f != nil && f.Amount.IsPositive() {
		m.Fee = sdk.Coins{*f}
	}
	st := w.Deliver("basketCreate", m)
	resp, ok := st.Res.RespMsg.(*baskettypes.MsgCreateResponse)
	if !st.Res.OK || !ok {
		return
	}
	// deposit in scrambled order
	for len(items) > 0 {
		i := w.intn("bulk.pick", len(items))
		it := items[i]
		items = append(items[:i], items[i+1:]...)
		w.Deliver("put", &baskettypes.MsgPut{Owner: holder.String(), BasketDenom: resp.BasketDenom, Credits: []*baskettypes.BasketCredit{{BatchDenom: it.denom, Amount: it.amt}}})
	}
}

// bulkOrders is a macro step: one seller opens 101-125 small sell orders on one batch (three
// per message), with a few shared expirations. It reaches list sizes beyond the default page
// limit (100) and blocks in which many orders expire at once.
func (w *World) bulkOrders() {
	bs := w.balances(true)
	if len(bs) == 0 || len(w.S.AllowedDenoms) == 0 {
		w.Step("createBatch")
		return
	}
	b := pickOf(w, "bo.hold", bs)
	if b.Tradable.Cmp(big.NewRat(1, 1000)) < 0 {
		w.Step("createBatch")
		return
	}
	w.Flags["bulk-orders"] = true
	n := 101 + w.intn("bo.n", 25)
	bt := w.C.Time
	exps := []*time.Time{nil, nil}
	for i := 0; i < 3; i++ {
		e := bt.Add(time.Duration(1+w.intn(fmt.Sprintf("bo.e%d", i), 120)) * time.Second)
		exps = append(exps, &e)
	}
	denom := w.allowedDenom("bo.denom")
	for made := 0; made < n; {
		var orders []*markettypes.MsgSell_Order
		for j := 0; j < 3 && made < n; j++ {
			ask := sdk.NewCoin(denom, sdk.NewInt(int64(1+w.intn("bo.ask", 50))))
			orders = append(orders, &markettypes.MsgSell_Order{BatchDenom: b.Batch.Denom, Quantity: "0.000001", AskPrice: &ask,
				DisableAutoRetire: made%2 == 0, Expiration: exps[w.intn("bo.exp", len(exps))]})
			made++
		}
		w.Deliver("sell", &markettypes.MsgSell{Seller: b.Addr.String(), Orders: orders})
	}
}
