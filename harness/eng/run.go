package eng

import (
	"fmt"
	"math/big"
	"strings"
	"time"

	sdk "github.com/cosmos/cosmos-sdk/types"
	"pgregory.net/rapid"

	"github.com/regen-network/regen-ledger/x/data/v3"
	basetypes "github.com/regen-network/regen-ledger/x/ecocredit/v3/base/types/v1"
	baskettypes "github.com/regen-network/regen-ledger/x/ecocredit/v3/basket/types/v1"
	markettypes "github.com/regen-network/regen-ledger/x/ecocredit/v3/marketplace/types/v1"

	"verif/snap"
)

// Profile extras used by generators.
type profileExtras struct{}

// RunHistory is the body of a stateful rapid property: draw a configuration,
// then a history of steps, with the monitors' oracles run after every step.
func RunHistory(t *rapid.T, prof *Profile, mons ...Monitor) {
	prof.prepare()
	g := GenGenesis(t, prof)
	if prof.Hashers != nil {
		g.Hasher = prof.Hashers[uniform(t, "g.hasher", len(prof.Hashers))]
		if g.Hasher.Kind != "" {
			g.Notes = append(g.Notes, fmt.Sprintf("hasher=%+v", g.Hasher))
		}
	}
	if g.Data != nil {
		g.Data = genDataGenesis(DefaultAccounts(), g.Hasher.Build()) // ids as this configuration's hasher assigns them
	}
	w := NewWorld(t, g, prof, func(f string, a ...interface{}) { t.Fatalf(f, a...) }, mons...)
	for _, n := range g.Notes {
		if strings.HasPrefix(n, "populated{") {
			w.Flags["populated-genesis"] = true
		} else if strings.HasPrefix(n, "vesting{") {
			w.Flags["vesting-account"] = true
		} else if strings.HasPrefix(n, "prefix-ids{") {
			w.Flags["prefix-ids-genesis"] = true
		} else if strings.HasPrefix(n, "chain-id=regen-1") || strings.HasPrefix(n, "chain-id=regen-redwood-1") {
			w.Flags["real-network-chain-id"] = true
		} else if strings.HasPrefix(n, "initial-height=") {
			w.Flags["initial-height>1"] = true
		} else if strings.HasPrefix(n, "legacy-batches{") {
			w.Flags["legacy-genesis-batches"] = true
		} else if strings.HasPrefix(n, "basket-lists-class-of-other-credit-type{") {
			w.Flags["genesis-basket-lists-class-of-other-credit-type"] = true
		} else if n == "fee-pool-funded-at-genesis" {
			w.Flags["fee-pool-funded-at-genesis"] = true
		} else if strings.HasPrefix(n, "data-genesis{") {
			w.Flags["data-genesis"] = true
		} else if strings.HasPrefix(n, "legacy-exponent-basket{") {
			w.Flags["legacy-exponent-basket"] = true
		} else if strings.HasPrefix(n, "legacy-baskets{") {
			w.Flags["legacy-genesis-baskets"] = true
		}
	}
	prelude := prof.Prelude
	step := 0
	t.Repeat(map[string]func(*rapid.T){
		"step": func(t *rapid.T) {
			w.T = t
			kind := ""
			if step < len(prelude) {
				kind = prelude[step]
			} else {
				kind = prof.drawKind(t)
			}
			step++
			w.Step(kind)
		},
	})
	w.Finish()
}

// Step executes one step of the given kind with generated arguments.
func (w *World) Step(kind string) {
	switch kind {
	case "block":
		w.NextBlock(w.nextTime(), false)
	case "restart":
		w.NextBlock(w.nextTime(), true)
		w.Flags["restart"] = true
	case "faucet":
		a := w.anyAcct("faucet")
		d := pickOf(w, "faucetdenom", BankDenoms)
		w.Faucet(a, sdk.NewCoins(sdk.NewInt64Coin(d, int64(1+w.intn("faucetamt", 1_000_000_000)))))
	case "bulkBasket", "bulkOrders", "bulkAttest", "bulkHolders", "bulkBook":
		// a macro step runs at most once per history (they are expensive and make every later step
		// more expensive); a second draw is an ordinary step
		if w.Flags[map[string]string{"bulkBasket": "bulk-basket", "bulkOrders": "bulk-orders", "bulkAttest": "bulk-attest", "bulkHolders": "bulk-holders", "bulkBook": "bulk-book"}[kind]] {
			w.Step(w.Profile.drawKind(w.T))
			return
		}
		switch kind {
		case "bulkBasket":
			w.bulkBasket()
		case "bulkOrders":
			w.bulkOrders()
		case "bulkAttest":
			w.bulkAttest()
		case "bulkHolders":
			w.bulkHolders()
		case "bulkBook":
			w.bulkBook()
		}
	case "speculate":
		w.speculate()
	default:
		if h, ok := w.Profile.Custom[kind]; ok {
			h(w)
			return
		}
		kind = w.remap(kind)
		gen, ok := Gens[kind]
		if !ok {
			w.Fail("harness: unknown step kind %q", kind)
		}
		w.Deliver(kind, gen(w))
	}
}

// nextTime draws the next block time: strictly increasing, from 1 ns to years
// ahead, with a mode that lands exactly on (or 1 ns around) a pending
// sell-order expiration.
func (w *World) nextTime() time.Time {
	// a block header's time is a protobuf timestamp (years 1..9999) and later blocks must be later still: the
	// harness keeps block times below the year 9000
	t := w.nextTime0()
	if limit := time.Date(9000, 1, 1, 0, 0, 0, 0, time.UTC); t.After(limit) {
		t = w.C.Time.Add(time.Duration(1+w.intn("dt.late", 30)) * time.Second)
	}
	return t
}

func (w *World) nextTime0() time.Time {
	bt := w.C.Time
	x := w.intn("dt", 100)
	switch {
	case x < 35 && len(w.S.SellOrders) > 0:
		var exps []time.Time
		for _, o := range w.S.SellOrders {
			if o.Expiration != nil {
				if e := o.Expiration.AsTime(); e.After(bt) {
					exps = append(exps, e)
				}
			}
		}
		if len(exps) > 0 {
			e := pickOf(w, "exp", exps)
			switch w.intn("around", 4) {
			case 0:
				if e.Add(-time.Nanosecond).After(bt) {
					return e.Add(-time.Nanosecond)
				}
			case 1:
				return e.Add(time.Nanosecond)
			}
			w.Flags["block-on-expiry"] = true
			return e
		}
	case x < 40:
		// around the next boundary of a calendar unit (year, month, day in UTC): date logic changes there
		var b time.Time
		switch w.intn("calunit", 3) {
		case 0:
			b = time.Date(bt.Year()+1, 1, 1, 0, 0, 0, 0, time.UTC)
		case 1:
			b = time.Date(bt.Year(), bt.Month()+1, 1, 0, 0, 0, 0, time.UTC)
		default:
			b = time.Date(bt.Year(), bt.Month(), bt.Day()+1, 0, 0, 0, 0, time.UTC)
		}
		off := []time.Duration{0, -time.Nanosecond, time.Nanosecond, -time.Hour, time.Hour, -9 * time.Hour, 8 * time.Hour, -13 * time.Hour, 11 * time.Hour}[w.intn("caloff", 9)]
		if t := b.Add(off); t.After(bt) {
			w.Flags["block-near-calendar-boundary"] = true
			return t
		}
		return b
	case x < 45:
		return bt.Add(time.Nanosecond)
	case x < 55:
		return bt.Add(time.Duration(1+w.intn("days", 400)) * 24 * time.Hour)
	case x < 58:
		return bt.AddDate(1+w.intn("years", 30), 0, 0)
	}
	return bt.Add(time.Duration(1+w.intn("secs", 30)) * time.Second)
}

// remap substitutes the step that creates a missing prerequisite for a step
// kind that cannot possibly succeed in the current state (construction over
// rejection); a fraction of such steps is still delivered to exercise the
// not-found paths.
func (w *World) remap(kind string) string {
	for i := 0; i < 6; i++ {
		k := w.remapOnce(kind)
		if k == kind {
			return k
		}
		kind = k
	}
	return kind
}

// unaffordable reports whether no user account holds the fee.
func (w *World) unaffordable(f *sdk.Coin) bool {
	for _, a := range w.Accts {
		if w.S.BankOf(a.String(), f.Denom).Cmp(f.Amount.BigInt()) >= 0 {
			return false
		}
	}
	return true
}

func (w *World) remapOnce(kind string) string {
	s := w.S
	hasHolding := func() bool {
		for _, b := range s.Balances {
			if b.TradableAmount != "0" && b.TradableAmount != "" {
				return true
			}
		}
		return false
	}
	need := ""
	switch kind {
	case "createClass":
		if len(s.Allowlist) > 0 && s.Allowlist[0].Enabled && len(s.AllowedCreators) == 0 {
			need = "addCreator"
		} else if f := w.RequiredClassFee(); f != nil && w.unaffordable(f) {
			need = "updClassFee"
		}
	case "basketCreate":
		if len(s.Classes) == 0 {
			need = "createClass"
		} else if f := w.RequiredBasketFee(); f != nil && w.unaffordable(f) {
			need = "updBasketFee"
		}
	case "createProject", "updClassAdmin", "updClassIssuers", "updClassMeta", "bridgeReceive":
		if len(s.Classes) == 0 {
			need = "createClass"
		} else if kind == "bridgeReceive" && len(s.BridgeChains) == 0 {
			need = "addBridgeChain"
		}
	case "createBatch", "updProjectAdmin", "updProjectMeta":
		if len(s.Projects) == 0 {
			need = "createProject"
		}
	case "mint", "seal", "updBatchMeta":
		if len(s.Batches) == 0 {
			need = "createBatch"
		}
	case "send", "retire", "cancel", "bridge", "sell":
		if !hasHolding() {
			need = "createBatch"
		} else if kind == "sell" && len(s.AllowedDenoms) == 0 {
			need = "addDenom"
		} else if kind == "bridge" && len(s.BridgeChains) == 0 {
			need = "addBridgeChain"
		} else if kind == "bridge" && len(s.Contracts) == 0 {
			need = "bridgeReceive"
		}
	case "put":
		if len(s.Baskets) == 0 {
			need = "basketCreate"
		} else if !hasHolding() {
			need = "createBatch"
		}
	case "take":
		if len(s.Baskets) == 0 {
			need = "basketCreate"
		} else if len(s.BasketBalances) == 0 {
			need = "put"
		}
	case "updCurator", "updDateCriteria":
		if len(s.Baskets) == 0 {
			need = "basketCreate"
		}
	case "updSell", "cancelSell", "buy":
		if len(s.SellOrders) == 0 {
			need = "sell"
		}
	case "registerResolver":
		if len(s.Resolvers) == 0 {
			need = "defineResolver"
		}
	}
	if need == "" {
		return kind
	}
	if _, ok := w.Profile.Weights[need]; !ok && !w.Profile.RemapAny {
		return kind
	}
	if w.chance("remap?keep", 10) {
		return kind
	}
	return need
}

// bulkBasket is a macro step: it fills one basket with 21-28 batches of one project (distinct
// start dates, deposited in scrambled order). Every message goes through Deliver, i.e. through
// the monitors, like any other. It reaches states (a basket with dozens of batches, as real
// baskets have) that 40-70 independent random steps do not.
func (w *World) bulkBasket() {
	s := w.S
	// a project whose class has an issuer among the users
	var pid, cid, ct string
	var issuer sdk.AccAddress
	for _, p := range s.Projects {
		c := s.ClassByKey(p.ClassKey)
		if c == nil {
			continue
		}
		for _, is := range w.issuersOf(c.Key) {
			if w.isUser(is) {
				pid, cid, ct, issuer = p.Id, c.Id, c.CreditTypeAbbrev, sdk.AccAddress(is)
			}
		}
	}
	if pid == "" {
		w.Step("createProject")
		return
	}
	w.Flags["bulk-basket"] = true
	holder := w.anyAcct("bulk.holder")
	n := 21 + w.intn("bulk.n", 8)
	if w.chance("bulk.huge", 12) { // beyond the default page size of list helpers (100)
		n = 101 + w.intn("bulk.n2", 6)
		w.Flags["bulk-basket>100"] = true
	}
	type item struct {
		denom string
		amt   string
	}
	var items []item
	for i := 0; i < n; i++ {
		start := time.Date(2001+w.intn(fmt.Sprintf("bulk.y%d", i), 20), time.Month(1+w.intn(fmt.Sprintf("bulk.m%d", i), 12)), 1+w.intn(fmt.Sprintf("bulk.d%d", i), 28), 0, 0, 0, 0, time.UTC)
		end := start.AddDate(1, 0, 0)
		amt := fmt.Sprintf("%d", 1+w.intn(fmt.Sprintf("bulk.a%d", i), 9))
		st := w.Deliver("createBatch", &basetypes.MsgCreateBatch{Issuer: issuer.String(), ProjectId: pid, Metadata: "bulk", StartDate: &start, EndDate: &end,
			Issuance: []*basetypes.BatchIssuance{{Recipient: holder.String(), TradableAmount: amt}}})
		if resp, ok := st.Res.RespMsg.(*basetypes.MsgCreateBatchResponse); ok && st.Res.OK {
			items = append(items, item{resp.BatchDenom, amt})
		}
	}
	curator := w.anyAcct("bulk.curator")
	name := fmt.Sprintf("K%d", 1000+w.StepIdx)
	m := &baskettypes.MsgCreate{Curator: curator.String(), Name: name, CreditTypeAbbrev: ct, AllowedClasses: []string{cid}, DisableAutoRetire: w.chance("bulk.dar", 60)}
	if f := w.RequiredBasketFee(); f != nil && f.Amount.IsPositive() {
		m.Fee = sdk.Coins{*f}
	}
	st := w.Deliver("basketCreate", m)
	resp, ok := st.Res.RespMsg.(*baskettypes.MsgCreateResponse)
	if !st.Res.OK || !ok {
		return
	}
	// deposit in scrambled order
	for len(items) > 0 {
		i := w.intn("bulk.pick", len(items))
		it := items[i]
		items = append(items[:i], items[i+1:]...)
		w.Deliver("put", &baskettypes.MsgPut{Owner: holder.String(), BasketDenom: resp.BasketDenom, Credits: []*baskettypes.BasketCredit{{BatchDenom: it.denom, Amount: it.amt}}})
	}
}

// bulkOrders is a macro step: one seller opens 101-125 small sell orders on one batch (three
// per message), with a few shared expirations. It reaches list sizes beyond the default page
// limit (100) and blocks in which many orders expire at once.
func (w *World) bulkOrders() {
	bs := w.balances(true)
	if len(bs) == 0 || len(w.S.AllowedDenoms) == 0 {
		w.Step("createBatch")
		return
	}
	b := pickOf(w, "bo.hold", bs)
	if b.Tradable.Cmp(big.NewRat(1, 1000)) < 0 {
		w.Step("createBatch")
		return
	}
	w.Flags["bulk-orders"] = true
	n, per := 101+w.intn("bo.n", 25), 3
	if w.chance("bo.huge", 10) { // several default pages, a begin blocker with hundreds of orders due
		n, per = 241+w.intn("bo.n2", 40), 12
		w.Flags["bulk-orders>240"] = true
	}
	bt := w.C.Time
	var exps []*time.Time
	if !w.chance("bo.allexpire", 50) {
		exps = append(exps, nil, nil)
	}
	for i := 0; i < 3; i++ {
		e := bt.Add(time.Duration(1+w.intn(fmt.Sprintf("bo.e%d", i), 120)) * time.Second)
		exps = append(exps, &e)
	}
	denom := w.allowedDenom("bo.denom")
	for made := 0; made < n; {
		var orders []*markettypes.MsgSell_Order
		for j := 0; j < per && made < n; j++ {
			ask := sdk.NewCoin(denom, sdk.NewInt(int64(1+w.intn("bo.ask", 50))))
			orders = append(orders, &markettypes.MsgSell_Order{BatchDenom: b.Batch.Denom, Quantity: "0.000001", AskPrice: &ask,
				DisableAutoRetire: made%2 == 0, Expiration: exps[w.intn("bo.exp", len(exps))]})
			made++
		}
		w.Deliver("sell", &markettypes.MsgSell{Seller: b.Addr.String(), Orders: orders})
	}
}

// bulkBook is a macro step: the holders of up to two batches hand a little to every user account and every account
// lists a little of each: an order book with many distinct (seller, batch) pairs, as a sweep over it needs.
func (w *World) bulkBook() {
	bs := w.balances(true)
	if len(bs) == 0 || len(w.S.AllowedDenoms) == 0 {
		w.Step("createBatch")
		return
	}
	w.Flags["bulk-book"] = true
	denom := w.allowedDenom("bb.denom")
	seen := map[uint64]bool{}
	for k := 0; k < 2; k++ {
		b := pickOf(w, fmt.Sprintf("bb.hold%d", k), bs)
		if seen[b.Batch.Key] || b.Tradable.Cmp(big.NewRat(1, 1)) < 0 {
			continue
		}
		seen[b.Batch.Key] = true
		for _, a := range w.Accts {
			if !a.Equals(b.Addr) {
				w.Deliver("send", &basetypes.MsgSend{Sender: b.Addr.String(), Recipient: a.String(), Credits: []*basetypes.MsgSend_SendCredits{{BatchDenom: b.Batch.Denom, TradableAmount: "0.1"}}})
			}
		}
		for i, a := range w.Accts {
			ask := sdk.NewCoin(denom, sdk.NewInt(int64(1+w.intn("bb.ask", 20))))
			w.Deliver("sell", &markettypes.MsgSell{Seller: a.String(), Orders: []*markettypes.MsgSell_Order{{BatchDenom: b.Batch.Denom, Quantity: "0.05", AskPrice: &ask, DisableAutoRetire: i%2 == 0}}})
		}
	}
}

// bulkAttest is a macro step: one attestor attests 101-130 new graphs in a single message (the
// message has no length limit). The hashes join the pool the data generators draw from, so
// later steps re-attest, re-anchor and register some of them.
func (w *World) bulkAttest() {
	w.Flags["bulk-attest"] = true
	n := 101 + w.intn("ba.n", 30)
	base := len(w.bulkGraphs)
	var hs []*data.ContentHash_Graph
	for i := 0; i < n; i++ {
		h := make([]byte, 32)
		for j := range h {
			h[j] = byte(0xa0 + j)
		}
		h[0], h[1], h[2] = 0xbb, byte((base+i)>>8), byte(base+i)
		if w.chance("ba.scramble", 50) { // ids are derived from a hash of the IRI: vary the leading bytes too
			h[0], h[31] = byte(base+i), byte((base+i)*31)
			h[1] = byte((base + i) >> 8)
		}
		g := &data.ContentHash_Graph{Hash: h, DigestAlgorithm: 1, CanonicalizationAlgorithm: 1}
		hs = append(hs, g)
		w.bulkGraphs = append(w.bulkGraphs, g)
	}
	w.Deliver("attest", &data.MsgAttest{Attestor: w.anyAcct("ba.attestor").String(), ContentHashes: hs})
}

// bulkHolders is a macro step: the holder of a batch sends the smallest unit to 11-14 addresses
// that hold nothing yet, so that one batch has more holders than there are user accounts.
func (w *World) bulkHolders() {
	bs := w.balances(true)
	if len(bs) == 0 {
		w.Step("createBatch")
		return
	}
	b := pickOf(w, "bh.hold", bs)
	if b.Tradable.Cmp(big.NewRat(1, 1000)) < 0 {
		w.Step("createBatch")
		return
	}
	w.Flags["bulk-holders"] = true
	n := 11 + w.intn("bh.n", 4)
	for i := 0; i < n; i++ {
		a := make([]byte, 20)
		for j := range a {
			a[j] = 0x77
		}
		a[18], a[19] = byte(w.StepIdx), byte(i)
		c := &basetypes.MsgSend_SendCredits{BatchDenom: b.Batch.Denom, TradableAmount: "0.000001"}
		if i%4 == 3 {
			c = &basetypes.MsgSend_SendCredits{BatchDenom: b.Batch.Denom, RetiredAmount: "0.000001", RetirementJurisdiction: "US-WA"}
		}
		w.Deliver("send", &basetypes.MsgSend{Sender: b.Addr.String(), Recipient: sdk.AccAddress(a).String(), Credits: []*basetypes.MsgSend_SendCredits{c}})
	}
}

// speculate is a step that executes one to three generated messages on a branch of the open
// block which is then discarded: what a gas simulation does, and what DeliverTx does with a
// transaction whose later message fails. The monitors do not see these messages (they never
// happened as far as state is concerned); whatever they leave behind outside the store (keeper
// fields, package variables) shows up in the steps that follow. Inside the branch the
// generators see the branch's state, so the messages build on each other; a successful message
// is sometimes executed a second time (the read-what-I-just-wrote path).
func (w *World) speculate() {
	var kinds []string
	for _, k := range w.Profile.kinds {
		if _, ok := Gens[k]; ok {
			kinds = append(kinds, k)
		}
	}
	if len(kinds) == 0 {
		return
	}
	w.StepIdx++
	n := 1 + w.intn("spec.n", 3)
	saved := w.S
	st := TStep{Kind: "spec"}
	okN := 0
	// one speculative step in three is a chain of creations or of a configuration change and its use (what a multi-message transaction that sets something
	// up and then fails looks like): the entities exist only inside the discarded branch
	var creations, template []string
	if w.intn("spec.create", 3) == 2 {
		for _, k := range []string{"addCreditType", "createClass", "createProject", "createBatch", "basketCreate", "put", "bridgeReceive", "sell", "defineResolver", "registerResolver", "anchor", "attest", "addBridgeChain", "addDenom", "addCreator"} {
			if _, ok := Gens[k]; ok && w.Profile.Weights[k] > 0 {
				creations = append(creations, k)
			}
		}
		if len(creations) > 0 {
			n = 2 + w.intn("spec.create.n", 4)
		}
		// most chains are a coherent set-up (each message tends to name what the previous one created)
		if tmpl := specTemplates[w.intn("spec.tmpl", len(specTemplates)+2)%len(specTemplates)]; w.intn("spec.tmpl?", 10) < 7 {
			var ks []string
			for _, k := range tmpl {
				if _, ok := Gens[k]; ok && w.Profile.Weights[k] > 0 {
					ks = append(ks, k)
				}
			}
			if len(ks) >= 2 {
				template, n = ks, len(ks)
			}
		}
	}
	branch := saved
	w.inBranch, w.brNew = true, idSets{}
	defer func() { w.inBranch, w.brNew = false, idSets{} }()
	w.C.Sandbox(func() {
		defer func() { branch = w.S }()
		for i := 0; i < n; i++ {
			var kind string
			if template != nil {
				kind = template[i]
			} else if len(creations) > 0 {
				kind = creations[w.intn("spec.create.kind", len(creations))]
			} else if w.chance("spec.byweight", 50) {
				kind = w.Profile.drawKind(w.T)
				if _, ok := Gens[kind]; !ok {
					kind = kinds[w.intn("spec.kind", len(kinds))]
				}
			} else {
				kind = kinds[w.intn("spec.kind", len(kinds))]
			}
			kind = w.remap(kind)
			gen, ok := Gens[kind]
			if !ok {
				continue
			}
			msg := gen(w)
			sub := Trace{}
			sub.AddMsg(w.C, kind, msg)
			dec, err := wireRoundTrip(w.C, msg)
			if err != nil {
				continue
			}
			res := w.C.Deliver(dec)
			sub.SetResult(res.OK, res.Err)
			st.Sub = append(st.Sub, sub.Steps[0])
			if res.OK {
				okN++
				if p, ok := msg.(*baskettypes.MsgPut); ok {
					for _, c := range p.Credits {
						for _, d := range w.brNew.batches {
							if c.BatchDenom == d {
								w.Flags["discarded-put-of-discarded-batch"] = true
							}
						}
					}
					for _, d := range w.brNew.baskets {
						if p.BasketDenom == d {
							w.Flags["discarded-put-into-discarded-basket"] = true
						}
					}
				}
				w.S = w.R.Take(w.C)
				w.brNew = newIDs(saved, w.S)
				if w.chance("spec.again", 35) {
					if dec2, err := wireRoundTrip(w.C, msg); err == nil {
						res2 := w.C.Deliver(dec2)
						sub.SetResult(res2.OK, res2.Err)
						st.Sub = append(st.Sub, sub.Steps[0])
						if res2.OK {
							w.S = w.R.Take(w.C)
						}
					}
				}
			}
		}
	})
	w.S = saved
	w.notePhantoms(saved, branch)
	w.Trace.Steps = append(w.Trace.Steps, st)
	w.addSig("spec", true)
	if okN > 0 {
		w.Flags["speculative-success-discarded"] = true
	}
}

var specTemplates = [][]string{
	{"addCreditType", "createClass", "createProject", "createBatch"},
	{"createClass", "createProject", "createBatch", "basketCreate", "put"},
	{"basketCreate", "put", "take"},
	{"createBatch", "put", "sell"},
	{"createBatch", "put", "put", "take"},
	{"createBatch", "put", "take", "put"},
	{"createBatch", "basketCreate", "put", "take"},
	{"createProject", "createBatch", "send", "retire"},
	{"defineResolver", "registerResolver", "anchor", "attest"},
	{"addBridgeChain", "bridgeReceive", "bridge"},
	// a configuration or role change and its first use, both discarded
	{"setFeeParams", "buy"},
	{"setFeeParams", "sell", "buy"},
	{"updClassFee", "createClass"},
	{"updBasketFee", "basketCreate"},
	{"addDenom", "sell", "buy"},
	{"removeDenom", "sell"},
	{"setAllowlist", "addCreator", "createClass"},
	{"updDateCriteria", "put"},
	{"updCurator", "updDateCriteria"},
	{"updClassIssuers", "createBatch"},
	{"updClassAdmin", "updClassIssuers"},
	{"updProjectAdmin", "createBatch"},
	{"seal", "mint"},
	{"removeBridgeChain", "bridge"},
}

// idSets are the identifiers present in one snapshot and not in another, per entity kind.
type idSets struct{ creditTypes, classes, projects, batches, baskets []string }

func newIDs(saved, branch *snap.Snap) idSets {
	var out idSets
	if branch == nil || branch == saved {
		return out
	}
	have := map[string]bool{}
	for _, x := range saved.CreditTypes {
		have["t/"+x.Abbreviation] = true
	}
	for _, x := range saved.Classes {
		have["c/"+x.Id] = true
	}
	for _, x := range saved.Projects {
		have["p/"+x.Id] = true
	}
	for _, x := range saved.Batches {
		have["b/"+x.Denom] = true
	}
	for _, x := range saved.Baskets {
		have["k/"+x.BasketDenom] = true
	}
	for _, x := range branch.CreditTypes {
		if !have["t/"+x.Abbreviation] {
			out.creditTypes = append(out.creditTypes, x.Abbreviation)
		}
	}
	for _, x := range branch.Classes {
		if !have["c/"+x.Id] {
			out.classes = append(out.classes, x.Id)
		}
	}
	for _, x := range branch.Projects {
		if !have["p/"+x.Id] {
			out.projects = append(out.projects, x.Id)
		}
	}
	for _, x := range branch.Batches {
		if !have["b/"+x.Denom] {
			out.batches = append(out.batches, x.Denom)
		}
	}
	for _, x := range branch.Baskets {
		if !have["k/"+x.BasketDenom] {
			out.baskets = append(out.baskets, x.BasketDenom)
		}
	}
	return out
}

// notePhantoms records the identifiers that exist in the discarded branch but not in the state it branched from.
func (w *World) notePhantoms(saved, branch *snap.Snap) {
	add := func(pool *[]string, ids []string) {
	next:
		for _, id := range ids {
			for _, x := range *pool {
				if x == id {
					continue next
				}
			}
			if len(*pool) < 8 {
				*pool = append(*pool, id)
			}
		}
	}
	n := newIDs(saved, branch)
	for _, d := range n.batches {
		if b := branch.BatchByDenom(d); b != nil && len(w.phBatchInfo) < 8 && b.StartDate != nil && b.EndDate != nil {
			for _, p := range branch.Projects {
				if p.Key == b.ProjectKey {
					w.phBatchInfo = append(w.phBatchInfo, phBatch{Denom: d, ProjectID: p.Id, Start: b.StartDate.AsTime(), End: b.EndDate.AsTime()})
				}
			}
		}
	}
	add(&w.phCreditTypes, n.creditTypes)
	add(&w.phClasses, n.classes)
	add(&w.phProjects, n.projects)
	add(&w.phBatches, n.batches)
	add(&w.phBaskets, n.baskets)
}

// branchNew returns (three draws in five, inside a speculative branch that has created one) an entity that exists
// only in the branch, so that the messages of a discarded transaction build on each other.
func (w *World) branchNew(label string, ids []string) (string, bool) {
	if !w.inBranch || len(ids) == 0 || w.intn(label+"?new", 5) < 2 {
		return "", false
	}
	return ids[len(ids)-1-w.intn(label+"new", len(ids))], true
}
