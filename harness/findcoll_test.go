//go:build verif

package harness

import (
	"encoding/binary"
	"os"
	"testing"

	"github.com/regen-network/regen-ledger/x/data/v3"
	"github.com/regen-network/regen-ledger/x/data/v3/server/hasher"

	"verif/eng"
)

// TestFindCollisions is a dev tool (VERIF_FIND_COLLISIONS=1): birthday search for content hashes whose IRIs collide in
// the first four bytes of the production hasher; the result is pasted into eng.CollidingSeeds.
func TestFindCollisions(t *testing.T) {
	if os.Getenv("VERIF_FIND_COLLISIONS") == "" {
		t.Skip()
	}
	hs, _ := hasher.NewHasher()
	seen := map[uint32]uint32{}
	found := 0
	for i := uint32(1); i < 3_000_000 && found < 6; i++ {
		ch := eng.SeededHash(i)
		iri, err := ch.ToIRI()
		if err != nil {
			t.Fatal(err)
		}
		id := hs.CreateID([]byte(iri), 0)
		k := binary.BigEndian.Uint32(id[:4])
		if j, ok := seen[k]; ok {
			t.Logf("collision: seeds %d and %d (graph=%v/%v)", j, i, eng.SeededHash(j).Graph != nil, ch.Graph != nil)
			found++
		} else {
			seen[k] = i
		}
	}
	_ = data.ContentHash{}
}
