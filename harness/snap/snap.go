// Package snap takes full-state snapshots of the chain through its OWN ORM
// handles (never through keeper code) and diffs them row by row.
package snap

import (
	"fmt"
	"math/big"
	"sort"
	"time"

	"google.golang.org/protobuf/proto"

	"github.com/cosmos/cosmos-sdk/orm/encoding/ormkv"
	"github.com/cosmos/cosmos-sdk/orm/model/ormdb"
	storetypes "github.com/cosmos/cosmos-sdk/store/types"
	sdk "github.com/cosmos/cosmos-sdk/types"

	dataapi "github.com/regen-network/regen-ledger/api/v2/regen/data/v1"
	basketapi "github.com/regen-network/regen-ledger/api/v2/regen/ecocredit/basket/v1"
	marketapi "github.com/regen-network/regen-ledger/api/v2/regen/ecocredit/marketplace/v1"
	baseapi "github.com/regen-network/regen-ledger/api/v2/regen/ecocredit/v1"
	"github.com/regen-network/regen-ledger/types/v2/ormstore"
	"github.com/regen-network/regen-ledger/x/data/v3"
	"github.com/regen-network/regen-ledger/x/ecocredit/v3"

	"verif/chain"
	"verif/ref"
)

// Reader owns independent ORM handles over the chain's store keys.
type Reader struct {
	eco     ormdb.ModuleDB
	data    ormdb.ModuleDB
	ecoKey  storetypes.StoreKey
	dataKey storetypes.StoreKey
}

func NewReader(c *chain.Chain) *Reader {
	eco, err := ormstore.NewStoreKeyDB(&ecocredit.ModuleSchema, c.EcoKey, ormdb.ModuleDBOptions{})
	if err != nil {
		panic(err)
	}
	dat, err := ormstore.NewStoreKeyDB(&data.ModuleSchema, c.DataKey, ormdb.ModuleDBOptions{})
	if err != nil {
		panic(err)
	}
	return &Reader{eco: eco, data: dat, ecoKey: c.EcoKey, dataKey: c.DataKey}
}

// Snap is a full copy of module and bank state.
type Snap struct {
	Height int64
	Time   time.Time

	CreditTypes     []*baseapi.CreditType
	Classes         []*baseapi.Class
	ClassIssuers    []*baseapi.ClassIssuer
	Projects        []*baseapi.Project
	Batches         []*baseapi.Batch
	ClassSeqs       []*baseapi.ClassSequence
	ProjectSeqs     []*baseapi.ProjectSequence
	BatchSeqs       []*baseapi.BatchSequence
	Balances        []*baseapi.BatchBalance
	Supplies        []*baseapi.BatchSupply
	OriginTxs       []*baseapi.OriginTxIndex
	Contracts       []*baseapi.BatchContract
	Allowlist       []*baseapi.ClassCreatorAllowlist
	AllowedCreators []*baseapi.AllowedClassCreator
	ClassFee        []*baseapi.ClassFee
	BridgeChains    []*baseapi.AllowedBridgeChain
	Enrollments     []*baseapi.ProjectEnrollment
	ProjectFee      []*baseapi.ProjectFee

	Baskets        []*basketapi.Basket
	BasketClasses  []*basketapi.BasketClass
	BasketBalances []*basketapi.BasketBalance
	BasketFee      []*basketapi.BasketFee

	SellOrders    []*marketapi.SellOrder
	AllowedDenoms []*marketapi.AllowedDenom
	Markets       []*marketapi.Market
	FeeParams     []*marketapi.FeeParams

	DataIDs       []*dataapi.DataID
	DataAnchors   []*dataapi.DataAnchor
	DataAttestors []*dataapi.DataAttestor
	Resolvers     []*dataapi.Resolver
	DataResolvers []*dataapi.DataResolver

	// Bank: address(bech32) -> denom -> amount; Supply: denom -> amount.
	Bank   map[string]map[string]*big.Int
	Supply map[string]*big.Int

	// Rows: table full name -> primary key rendering -> the row message.
	Rows map[string]map[string]proto.Message

	idx *index
}

type index struct {
	classByKey   map[uint64]*baseapi.Class
	classByID    map[string]*baseapi.Class
	projectByKey map[uint64]*baseapi.Project
	projectByID  map[string]*baseapi.Project
	batchByKey   map[uint64]*baseapi.Batch
	batchByDenom map[string]*baseapi.Batch
	supplyByKey  map[uint64]*baseapi.BatchSupply
	basketByID   map[uint64]*basketapi.Basket
	basketByDen  map[string]*basketapi.Basket
	marketByID   map[uint64]*marketapi.Market
	orderByID    map[uint64]*marketapi.SellOrder
	ctByAbbrev   map[string]*baseapi.CreditType
}

// scanStore walks one module store ONCE at the raw key/value level and decodes every
// entry with the ORM schema (primary-key entries only; index and sequence entries are
// skipped). This does not go through any keeper or table API of the code under test.
func scanStore(sctx sdk.Context, key storetypes.StoreKey, db ormdb.ModuleDB, s *Snap) {
	it := sctx.KVStore(key).Iterator(nil, nil)
	defer it.Close()
	for ; it.Valid(); it.Next() {
		k := it.Key()
		if len(k) == 3 { // singleton tables: module prefix, file id, table id and nothing else
			if mk := singletons[[3]byte{k[0], k[1], k[2]}]; mk != nil {
				m := mk()
				if err := proto.Unmarshal(it.Value(), m); err != nil {
					panic(fmt.Sprintf("harness: undecodable singleton %x: %v", k, err))
				}
				name := string(m.ProtoReflect().Descriptor().FullName())
				s.Rows[name] = map[string]proto.Message{"[]": m}
				s.add(m)
				continue
			}
		}
		e, err := db.DecodeEntry(k, it.Value())
		if err != nil {
			panic(fmt.Sprintf("harness: undecodable ORM entry %x: %v", k, err))
		}
		pk, ok := e.(*ormkv.PrimaryKeyEntry)
		if !ok {
			continue
		}
		name := string(pk.TableName)
		if s.Rows[name] == nil {
			s.Rows[name] = map[string]proto.Message{}
		}
		s.Rows[name][pkString(pk.Key)] = pk.Value
		s.add(pk.Value)
	}
}

// singletons maps (module prefix, file id, table id) to the singleton message types of
// the ecocredit schema (ids from the (cosmos.orm.v1.singleton) options in the state protos).
var singletons = map[[3]byte]func() proto.Message{
	{ecocredit.ORMPrefix, 2, 13}: func() proto.Message { return &baseapi.ClassCreatorAllowlist{} },
	{ecocredit.ORMPrefix, 2, 15}: func() proto.Message { return &baseapi.ClassFee{} },
	{ecocredit.ORMPrefix, 2, 18}: func() proto.Message { return &baseapi.ProjectFee{} },
	{ecocredit.ORMPrefix, 1, 4}:  func() proto.Message { return &basketapi.BasketFee{} },
	{ecocredit.ORMPrefix, 3, 5}:  func() proto.Message { return &marketapi.FeeParams{} },
}

func (s *Snap) add(m proto.Message) {
	switch x := m.(type) {
	case *baseapi.CreditType:
		s.CreditTypes = append(s.CreditTypes, x)
	case *baseapi.Class:
		s.Classes = append(s.Classes, x)
	case *baseapi.ClassIssuer:
		s.ClassIssuers = append(s.ClassIssuers, x)
	case *baseapi.Project:
		s.Projects = append(s.Projects, x)
	case *baseapi.Batch:
		s.Batches = append(s.Batches, x)
	case *baseapi.ClassSequence:
		s.ClassSeqs = append(s.ClassSeqs, x)
	case *baseapi.ProjectSequence:
		s.ProjectSeqs = append(s.ProjectSeqs, x)
	case *baseapi.BatchSequence:
		s.BatchSeqs = append(s.BatchSeqs, x)
	case *baseapi.BatchBalance:
		s.Balances = append(s.Balances, x)
	case *baseapi.BatchSupply:
		s.Supplies = append(s.Supplies, x)
	case *baseapi.OriginTxIndex:
		s.OriginTxs = append(s.OriginTxs, x)
	case *baseapi.BatchContract:
		s.Contracts = append(s.Contracts, x)
	case *baseapi.ClassCreatorAllowlist:
		s.Allowlist = append(s.Allowlist, x)
	case *baseapi.AllowedClassCreator:
		s.AllowedCreators = append(s.AllowedCreators, x)
	case *baseapi.ClassFee:
		s.ClassFee = append(s.ClassFee, x)
	case *baseapi.AllowedBridgeChain:
		s.BridgeChains = append(s.BridgeChains, x)
	case *baseapi.ProjectEnrollment:
		s.Enrollments = append(s.Enrollments, x)
	case *baseapi.ProjectFee:
		s.ProjectFee = append(s.ProjectFee, x)
	case *basketapi.Basket:
		s.Baskets = append(s.Baskets, x)
	case *basketapi.BasketClass:
		s.BasketClasses = append(s.BasketClasses, x)
	case *basketapi.BasketBalance:
		s.BasketBalances = append(s.BasketBalances, x)
	case *basketapi.BasketFee:
		s.BasketFee = append(s.BasketFee, x)
	case *marketapi.SellOrder:
		s.SellOrders = append(s.SellOrders, x)
	case *marketapi.AllowedDenom:
		s.AllowedDenoms = append(s.AllowedDenoms, x)
	case *marketapi.Market:
		s.Markets = append(s.Markets, x)
	case *marketapi.FeeParams:
		s.FeeParams = append(s.FeeParams, x)
	case *dataapi.DataID:
		s.DataIDs = append(s.DataIDs, x)
	case *dataapi.DataAnchor:
		s.DataAnchors = append(s.DataAnchors, x)
	case *dataapi.DataAttestor:
		s.DataAttestors = append(s.DataAttestors, x)
	case *dataapi.Resolver:
		s.Resolvers = append(s.Resolvers, x)
	case *dataapi.DataResolver:
		s.DataResolvers = append(s.DataResolvers, x)
	default:
		panic(fmt.Sprintf("harness: unknown table message %T", m))
	}
}

func pkString(pk []protoreflectValue) string {
	return fmt.Sprintf("%v", renderKey(pk))
}

// Take scans everything visible through ctx.
func (r *Reader) Take(c *chain.Chain) *Snap {
	sctx := c.ReadCtx()
	ctx := sdk.WrapSDKContext(sctx)
	s := &Snap{Height: c.Height, Time: c.Time, Rows: map[string]map[string]proto.Message{}}
	_ = ctx
	scanStore(sctx, r.ecoKey, r.eco, s)
	scanStore(sctx, r.dataKey, r.data, s)

	s.Bank = map[string]map[string]*big.Int{}
	c.BK.IterateAllBalances(sctx, func(addr sdk.AccAddress, coin sdk.Coin) bool {
		a := addr.String()
		if s.Bank[a] == nil {
			s.Bank[a] = map[string]*big.Int{}
		}
		s.Bank[a][coin.Denom] = new(big.Int).Set(coin.Amount.BigInt())
		return false
	})
	s.Supply = map[string]*big.Int{}
	c.BK.IterateTotalSupply(sctx, func(coin sdk.Coin) bool {
		s.Supply[coin.Denom] = new(big.Int).Set(coin.Amount.BigInt())
		return false
	})
	return s
}

func (s *Snap) ix() *index {
	if s.idx != nil {
		return s.idx
	}
	x := &index{
		classByKey: map[uint64]*baseapi.Class{}, classByID: map[string]*baseapi.Class{},
		projectByKey: map[uint64]*baseapi.Project{}, projectByID: map[string]*baseapi.Project{},
		batchByKey: map[uint64]*baseapi.Batch{}, batchByDenom: map[string]*baseapi.Batch{},
		supplyByKey: map[uint64]*baseapi.BatchSupply{},
		basketByID:  map[uint64]*basketapi.Basket{}, basketByDen: map[string]*basketapi.Basket{},
		marketByID: map[uint64]*marketapi.Market{}, orderByID: map[uint64]*marketapi.SellOrder{},
		ctByAbbrev: map[string]*baseapi.CreditType{},
	}
	for _, c := range s.Classes {
		x.classByKey[c.Key] = c
		x.classByID[c.Id] = c
	}
	for _, p := range s.Projects {
		x.projectByKey[p.Key] = p
		x.projectByID[p.Id] = p
	}
	for _, b := range s.Batches {
		x.batchByKey[b.Key] = b
		x.batchByDenom[b.Denom] = b
	}
	for _, b := range s.Supplies {
		x.supplyByKey[b.BatchKey] = b
	}
	for _, b := range s.Baskets {
		x.basketByID[b.Id] = b
		x.basketByDen[b.BasketDenom] = b
	}
	for _, m := range s.Markets {
		x.marketByID[m.Id] = m
	}
	for _, o := range s.SellOrders {
		x.orderByID[o.Id] = o
	}
	for _, c := range s.CreditTypes {
		x.ctByAbbrev[c.Abbreviation] = c
	}
	s.idx = x
	return x
}

func (s *Snap) ClassByKey(k uint64) *baseapi.Class        { return s.ix().classByKey[k] }
func (s *Snap) ClassByID(id string) *baseapi.Class        { return s.ix().classByID[id] }
func (s *Snap) ProjectByKey(k uint64) *baseapi.Project    { return s.ix().projectByKey[k] }
func (s *Snap) ProjectByID(id string) *baseapi.Project    { return s.ix().projectByID[id] }
func (s *Snap) BatchByKey(k uint64) *baseapi.Batch        { return s.ix().batchByKey[k] }
func (s *Snap) BatchByDenom(d string) *baseapi.Batch      { return s.ix().batchByDenom[d] }
func (s *Snap) SupplyByKey(k uint64) *baseapi.BatchSupply { return s.ix().supplyByKey[k] }
func (s *Snap) BasketByID(k uint64) *basketapi.Basket     { return s.ix().basketByID[k] }
func (s *Snap) BasketByDenom(d string) *basketapi.Basket  { return s.ix().basketByDen[d] }
func (s *Snap) MarketByID(k uint64) *marketapi.Market     { return s.ix().marketByID[k] }
func (s *Snap) OrderByID(k uint64) *marketapi.SellOrder   { return s.ix().orderByID[k] }
func (s *Snap) CreditType(a string) *baseapi.CreditType   { return s.ix().ctByAbbrev[a] }

// ClassOfBatch resolves batch -> project -> class (nil if dangling).
func (s *Snap) ClassOfBatch(b *baseapi.Batch) *baseapi.Class {
	p := s.ProjectByKey(b.ProjectKey)
	if p == nil {
		return nil
	}
	return s.ClassByKey(p.ClassKey)
}

// PrecisionOfBatch returns the credit type precision of a batch (6 if dangling).
func (s *Snap) PrecisionOfBatch(b *baseapi.Batch) uint32 {
	c := s.ClassOfBatch(b)
	if c == nil {
		return 6
	}
	ct := s.CreditType(c.CreditTypeAbbrev)
	if ct == nil {
		return 6
	}
	return ct.Precision
}

// BankOf returns the balance of addr in denom (zero if none).
func (s *Snap) BankOf(addr, denom string) *big.Int {
	if m := s.Bank[addr]; m != nil {
		if v := m[denom]; v != nil {
			return v
		}
	}
	return new(big.Int)
}

func (s *Snap) SupplyOf(denom string) *big.Int {
	if v := s.Supply[denom]; v != nil {
		return v
	}
	return new(big.Int)
}

// Balance returns the three balance columns of (addr bytes, batch key) as rationals.
func (s *Snap) Balance(addr []byte, batchKey uint64) (t, r, e *big.Rat) {
	for _, b := range s.Balances {
		if b.BatchKey == batchKey && string(b.Address) == string(addr) {
			return ref.MustRat(b.TradableAmount), ref.MustRat(b.RetiredAmount), ref.MustRat(b.EscrowedAmount)
		}
	}
	return new(big.Rat), new(big.Rat), new(big.Rat)
}

// RowChange is one entry of a Diff.
type RowChange struct {
	Table, PK string
	Kind      string // "insert" "delete" "update"
}

type BankChange struct {
	Addr, Denom string
	Delta       *big.Int
}

type Diff struct {
	Rows   []RowChange
	Bank   []BankChange
	Supply []BankChange // Addr empty
}

func (d Diff) Empty() bool { return len(d.Rows) == 0 && len(d.Bank) == 0 && len(d.Supply) == 0 }

func (d Diff) String() string {
	out := ""
	for _, r := range d.Rows {
		out += fmt.Sprintf("%s %s[%s]; ", r.Kind, r.Table, r.PK)
	}
	for _, b := range d.Bank {
		out += fmt.Sprintf("bank %s %s %s; ", b.Addr, b.Denom, b.Delta)
	}
	for _, b := range d.Supply {
		out += fmt.Sprintf("supply %s %s; ", b.Denom, b.Delta)
	}
	return out
}

// TablesTouched returns the sorted set of table names with row changes.
func (d Diff) TablesTouched() []string {
	m := map[string]bool{}
	for _, r := range d.Rows {
		m[r.Table] = true
	}
	var out []string
	for k := range m {
		out = append(out, k)
	}
	sort.Strings(out)
	return out
}

// Compare computes the row-level and bank-level diff pre -> post.
func Compare(pre, post *Snap) Diff {
	var d Diff
	tables := map[string]bool{}
	for t := range pre.Rows {
		tables[t] = true
	}
	for t := range post.Rows {
		tables[t] = true
	}
	var tnames []string
	for t := range tables {
		tnames = append(tnames, t)
	}
	sort.Strings(tnames)
	for _, t := range tnames {
		a, b := pre.Rows[t], post.Rows[t]
		var keys []string
		seen := map[string]bool{}
		for k := range a {
			keys = append(keys, k)
			seen[k] = true
		}
		for k := range b {
			if !seen[k] {
				keys = append(keys, k)
			}
		}
		sort.Strings(keys)
		for _, k := range keys {
			av, aok := a[k]
			bv, bok := b[k]
			switch {
			case aok && !bok:
				d.Rows = append(d.Rows, RowChange{t, k, "delete"})
			case !aok && bok:
				d.Rows = append(d.Rows, RowChange{t, k, "insert"})
			case !proto.Equal(av, bv):
				d.Rows = append(d.Rows, RowChange{t, k, "update"})
			}
		}
	}
	addrs := map[string]bool{}
	for a := range pre.Bank {
		addrs[a] = true
	}
	for a := range post.Bank {
		addrs[a] = true
	}
	var as []string
	for a := range addrs {
		as = append(as, a)
	}
	sort.Strings(as)
	for _, a := range as {
		den := map[string]bool{}
		for dn := range pre.Bank[a] {
			den[dn] = true
		}
		for dn := range post.Bank[a] {
			den[dn] = true
		}
		var ds []string
		for dn := range den {
			ds = append(ds, dn)
		}
		sort.Strings(ds)
		for _, dn := range ds {
			delta := new(big.Int).Sub(post.BankOf(a, dn), pre.BankOf(a, dn))
			if delta.Sign() != 0 {
				d.Bank = append(d.Bank, BankChange{a, dn, delta})
			}
		}
	}
	den := map[string]bool{}
	for dn := range pre.Supply {
		den[dn] = true
	}
	for dn := range post.Supply {
		den[dn] = true
	}
	var ds []string
	for dn := range den {
		ds = append(ds, dn)
	}
	sort.Strings(ds)
	for _, dn := range ds {
		delta := new(big.Int).Sub(post.SupplyOf(dn), pre.SupplyOf(dn))
		if delta.Sign() != 0 {
			d.Supply = append(d.Supply, BankChange{"", dn, delta})
		}
	}
	return d
}
