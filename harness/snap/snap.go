// Package snap takes full-state snapshots of the chain through its OWN ORM
// handles (never through keeper code) and diffs them row by row.
package snap

import (
	"context"
	"fmt"
	"math/big"
	"sort"
	"time"

	"google.golang.org/protobuf/proto"

	"github.com/cosmos/cosmos-sdk/orm/model/ormdb"
	"github.com/cosmos/cosmos-sdk/orm/model/ormtable"
	sdk "github.com/cosmos/cosmos-sdk/types"

	dataapi "github.com/regen-network/regen-ledger/api/v2/regen/data/v1"
	basketapi "github.com/regen-network/regen-ledger/api/v2/regen/ecocredit/basket/v1"
	marketapi "github.com/regen-network/regen-ledger/api/v2/regen/ecocredit/marketplace/v1"
	baseapi "github.com/regen-network/regen-ledger/api/v2/regen/ecocredit/v1"
	"github.com/regen-network/regen-ledger/types/v2/ormstore"
	"github.com/regen-network/regen-ledger/x/data/v3"
	"github.com/regen-network/regen-ledger/x/ecocredit/v3"

	"verif/chain"
	"verif/ref"
)

// Reader owns independent ORM handles over the chain's store keys.
type Reader struct {
	eco  ormdb.ModuleDB
	data ormdb.ModuleDB
}

func NewReader(c *chain.Chain) *Reader {
	eco, err := ormstore.NewStoreKeyDB(&ecocredit.ModuleSchema, c.EcoKey, ormdb.ModuleDBOptions{})
	if err != nil {
		panic(err)
	}
	dat, err := ormstore.NewStoreKeyDB(&data.ModuleSchema, c.DataKey, ormdb.ModuleDBOptions{})
	if err != nil {
		panic(err)
	}
	return &Reader{eco: eco, data: dat}
}

// Snap is a full copy of module and bank state.
type Snap struct {
	Height int64
	Time   time.Time

	CreditTypes     []*baseapi.CreditType
	Classes         []*baseapi.Class
	ClassIssuers    []*baseapi.ClassIssuer
	Projects        []*baseapi.Project
	Batches         []*baseapi.Batch
	ClassSeqs       []*baseapi.ClassSequence
	ProjectSeqs     []*baseapi.ProjectSequence
	BatchSeqs       []*baseapi.BatchSequence
	Balances        []*baseapi.BatchBalance
	Supplies        []*baseapi.BatchSupply
	OriginTxs       []*baseapi.OriginTxIndex
	Contracts       []*baseapi.BatchContract
	Allowlist       []*baseapi.ClassCreatorAllowlist
	AllowedCreators []*baseapi.AllowedClassCreator
	ClassFee        []*baseapi.ClassFee
	BridgeChains    []*baseapi.AllowedBridgeChain
	Enrollments     []*baseapi.ProjectEnrollment
	ProjectFee      []*baseapi.ProjectFee

	Baskets        []*basketapi.Basket
	BasketClasses  []*basketapi.BasketClass
	BasketBalances []*basketapi.BasketBalance
	BasketFee      []*basketapi.BasketFee

	SellOrders    []*marketapi.SellOrder
	AllowedDenoms []*marketapi.AllowedDenom
	Markets       []*marketapi.Market
	FeeParams     []*marketapi.FeeParams

	DataIDs       []*dataapi.DataID
	DataAnchors   []*dataapi.DataAnchor
	DataAttestors []*dataapi.DataAttestor
	Resolvers     []*dataapi.Resolver
	DataResolvers []*dataapi.DataResolver

	// Bank: address(bech32) -> denom -> amount; Supply: denom -> amount.
	Bank   map[string]map[string]*big.Int
	Supply map[string]*big.Int

	// Rows: table full name -> primary key rendering -> deterministic bytes.
	Rows map[string]map[string][]byte

	idx *index
}

type index struct {
	classByKey   map[uint64]*baseapi.Class
	classByID    map[string]*baseapi.Class
	projectByKey map[uint64]*baseapi.Project
	projectByID  map[string]*baseapi.Project
	batchByKey   map[uint64]*baseapi.Batch
	batchByDenom map[string]*baseapi.Batch
	supplyByKey  map[uint64]*baseapi.BatchSupply
	basketByID   map[uint64]*basketapi.Basket
	basketByDen  map[string]*basketapi.Basket
	marketByID   map[uint64]*marketapi.Market
	orderByID    map[uint64]*marketapi.SellOrder
	ctByAbbrev   map[string]*baseapi.CreditType
}

func scan[T proto.Message](ctx context.Context, db ormdb.ModuleDB, s *Snap, mk func() T) []T {
	proto0 := mk()
	tbl := db.GetTable(proto0)
	if tbl == nil {
		panic(fmt.Sprintf("no table for %T", proto0))
	}
	it, err := tbl.List(ctx, nil)
	if err != nil {
		panic(err)
	}
	defer it.Close()
	name := string(proto0.ProtoReflect().Descriptor().FullName())
	rows := map[string][]byte{}
	var out []T
	for it.Next() {
		m := mk()
		if err := it.UnmarshalMessage(m); err != nil {
			panic(err)
		}
		_, pk, err := it.Keys()
		if err != nil {
			panic(err)
		}
		bz, err := proto.MarshalOptions{Deterministic: true}.Marshal(m)
		if err != nil {
			panic(err)
		}
		rows[pkString(pk)] = bz
		out = append(out, m)
	}
	s.Rows[name] = rows
	return out
}

func pkString(pk []protoreflectValue) string {
	return fmt.Sprintf("%v", renderKey(pk))
}

// Take scans everything visible through ctx.
func (r *Reader) Take(c *chain.Chain) *Snap {
	sctx := c.ReadCtx()
	ctx := sdk.WrapSDKContext(sctx)
	s := &Snap{Height: c.Height, Time: c.Time, Rows: map[string]map[string][]byte{}}

	s.CreditTypes = scan(ctx, r.eco, s, func() *baseapi.CreditType { return &baseapi.CreditType{} })
	s.Classes = scan(ctx, r.eco, s, func() *baseapi.Class { return &baseapi.Class{} })
	s.ClassIssuers = scan(ctx, r.eco, s, func() *baseapi.ClassIssuer { return &baseapi.ClassIssuer{} })
	s.Projects = scan(ctx, r.eco, s, func() *baseapi.Project { return &baseapi.Project{} })
	s.Batches = scan(ctx, r.eco, s, func() *baseapi.Batch { return &baseapi.Batch{} })
	s.ClassSeqs = scan(ctx, r.eco, s, func() *baseapi.ClassSequence { return &baseapi.ClassSequence{} })
	s.ProjectSeqs = scan(ctx, r.eco, s, func() *baseapi.ProjectSequence { return &baseapi.ProjectSequence{} })
	s.BatchSeqs = scan(ctx, r.eco, s, func() *baseapi.BatchSequence { return &baseapi.BatchSequence{} })
	s.Balances = scan(ctx, r.eco, s, func() *baseapi.BatchBalance { return &baseapi.BatchBalance{} })
	s.Supplies = scan(ctx, r.eco, s, func() *baseapi.BatchSupply { return &baseapi.BatchSupply{} })
	s.OriginTxs = scan(ctx, r.eco, s, func() *baseapi.OriginTxIndex { return &baseapi.OriginTxIndex{} })
	s.Contracts = scan(ctx, r.eco, s, func() *baseapi.BatchContract { return &baseapi.BatchContract{} })
	s.Allowlist = scan(ctx, r.eco, s, func() *baseapi.ClassCreatorAllowlist { return &baseapi.ClassCreatorAllowlist{} })
	s.AllowedCreators = scan(ctx, r.eco, s, func() *baseapi.AllowedClassCreator { return &baseapi.AllowedClassCreator{} })
	s.ClassFee = scan(ctx, r.eco, s, func() *baseapi.ClassFee { return &baseapi.ClassFee{} })
	s.BridgeChains = scan(ctx, r.eco, s, func() *baseapi.AllowedBridgeChain { return &baseapi.AllowedBridgeChain{} })
	s.Enrollments = scan(ctx, r.eco, s, func() *baseapi.ProjectEnrollment { return &baseapi.ProjectEnrollment{} })
	s.ProjectFee = scan(ctx, r.eco, s, func() *baseapi.ProjectFee { return &baseapi.ProjectFee{} })

	s.Baskets = scan(ctx, r.eco, s, func() *basketapi.Basket { return &basketapi.Basket{} })
	s.BasketClasses = scan(ctx, r.eco, s, func() *basketapi.BasketClass { return &basketapi.BasketClass{} })
	s.BasketBalances = scan(ctx, r.eco, s, func() *basketapi.BasketBalance { return &basketapi.BasketBalance{} })
	s.BasketFee = scan(ctx, r.eco, s, func() *basketapi.BasketFee { return &basketapi.BasketFee{} })

	s.SellOrders = scan(ctx, r.eco, s, func() *marketapi.SellOrder { return &marketapi.SellOrder{} })
	s.AllowedDenoms = scan(ctx, r.eco, s, func() *marketapi.AllowedDenom { return &marketapi.AllowedDenom{} })
	s.Markets = scan(ctx, r.eco, s, func() *marketapi.Market { return &marketapi.Market{} })
	s.FeeParams = scan(ctx, r.eco, s, func() *marketapi.FeeParams { return &marketapi.FeeParams{} })

	s.DataIDs = scan(ctx, r.data, s, func() *dataapi.DataID { return &dataapi.DataID{} })
	s.DataAnchors = scan(ctx, r.data, s, func() *dataapi.DataAnchor { return &dataapi.DataAnchor{} })
	s.DataAttestors = scan(ctx, r.data, s, func() *dataapi.DataAttestor { return &dataapi.DataAttestor{} })
	s.Resolvers = scan(ctx, r.data, s, func() *dataapi.Resolver { return &dataapi.Resolver{} })
	s.DataResolvers = scan(ctx, r.data, s, func() *dataapi.DataResolver { return &dataapi.DataResolver{} })

	s.Bank = map[string]map[string]*big.Int{}
	c.BK.IterateAllBalances(sctx, func(addr sdk.AccAddress, coin sdk.Coin) bool {
		a := addr.String()
		if s.Bank[a] == nil {
			s.Bank[a] = map[string]*big.Int{}
		}
		s.Bank[a][coin.Denom] = new(big.Int).Set(coin.Amount.BigInt())
		return false
	})
	s.Supply = map[string]*big.Int{}
	c.BK.IterateTotalSupply(sctx, func(coin sdk.Coin) bool {
		s.Supply[coin.Denom] = new(big.Int).Set(coin.Amount.BigInt())
		return false
	})
	return s
}

func (s *Snap) ix() *index {
	if s.idx != nil {
		return s.idx
	}
	x := &index{
		classByKey: map[uint64]*baseapi.Class{}, classByID: map[string]*baseapi.Class{},
		projectByKey: map[uint64]*baseapi.Project{}, projectByID: map[string]*baseapi.Project{},
		batchByKey: map[uint64]*baseapi.Batch{}, batchByDenom: map[string]*baseapi.Batch{},
		supplyByKey: map[uint64]*baseapi.BatchSupply{},
		basketByID:  map[uint64]*basketapi.Basket{}, basketByDen: map[string]*basketapi.Basket{},
		marketByID: map[uint64]*marketapi.Market{}, orderByID: map[uint64]*marketapi.SellOrder{},
		ctByAbbrev: map[string]*baseapi.CreditType{},
	}
	for _, c := range s.Classes {
		x.classByKey[c.Key] = c
		x.classByID[c.Id] = c
	}
	for _, p := range s.Projects {
		x.projectByKey[p.Key] = p
		x.projectByID[p.Id] = p
	}
	for _, b := range s.Batches {
		x.batchByKey[b.Key] = b
		x.batchByDenom[b.Denom] = b
	}
	for _, b := range s.Supplies {
		x.supplyByKey[b.BatchKey] = b
	}
	for _, b := range s.Baskets {
		x.basketByID[b.Id] = b
		x.basketByDen[b.BasketDenom] = b
	}
	for _, m := range s.Markets {
		x.marketByID[m.Id] = m
	}
	for _, o := range s.SellOrders {
		x.orderByID[o.Id] = o
	}
	for _, c := range s.CreditTypes {
		x.ctByAbbrev[c.Abbreviation] = c
	}
	s.idx = x
	return x
}

func (s *Snap) ClassByKey(k uint64) *baseapi.Class        { return s.ix().classByKey[k] }
func (s *Snap) ClassByID(id string) *baseapi.Class        { return s.ix().classByID[id] }
func (s *Snap) ProjectByKey(k uint64) *baseapi.Project    { return s.ix().projectByKey[k] }
func (s *Snap) ProjectByID(id string) *baseapi.Project    { return s.ix().projectByID[id] }
func (s *Snap) BatchByKey(k uint64) *baseapi.Batch        { return s.ix().batchByKey[k] }
func (s *Snap) BatchByDenom(d string) *baseapi.Batch      { return s.ix().batchByDenom[d] }
func (s *Snap) SupplyByKey(k uint64) *baseapi.BatchSupply { return s.ix().supplyByKey[k] }
func (s *Snap) BasketByID(k uint64) *basketapi.Basket     { return s.ix().basketByID[k] }
func (s *Snap) BasketByDenom(d string) *basketapi.Basket  { return s.ix().basketByDen[d] }
func (s *Snap) MarketByID(k uint64) *marketapi.Market     { return s.ix().marketByID[k] }
func (s *Snap) OrderByID(k uint64) *marketapi.SellOrder   { return s.ix().orderByID[k] }
func (s *Snap) CreditType(a string) *baseapi.CreditType   { return s.ix().ctByAbbrev[a] }

// ClassOfBatch resolves batch -> project -> class (nil if dangling).
func (s *Snap) ClassOfBatch(b *baseapi.Batch) *baseapi.Class {
	p := s.ProjectByKey(b.ProjectKey)
	if p == nil {
		return nil
	}
	return s.ClassByKey(p.ClassKey)
}

// PrecisionOfBatch returns the credit type precision of a batch (6 if dangling).
func (s *Snap) PrecisionOfBatch(b *baseapi.Batch) uint32 {
	c := s.ClassOfBatch(b)
	if c == nil {
		return 6
	}
	ct := s.CreditType(c.CreditTypeAbbrev)
	if ct == nil {
		return 6
	}
	return ct.Precision
}

// BankOf returns the balance of addr in denom (zero if none).
func (s *Snap) BankOf(addr, denom string) *big.Int {
	if m := s.Bank[addr]; m != nil {
		if v := m[denom]; v != nil {
			return v
		}
	}
	return new(big.Int)
}

func (s *Snap) SupplyOf(denom string) *big.Int {
	if v := s.Supply[denom]; v != nil {
		return v
	}
	return new(big.Int)
}

// Balance returns the three balance columns of (addr bytes, batch key) as rationals.
func (s *Snap) Balance(addr []byte, batchKey uint64) (t, r, e *big.Rat) {
	for _, b := range s.Balances {
		if b.BatchKey == batchKey && string(b.Address) == string(addr) {
			return ref.MustRat(b.TradableAmount), ref.MustRat(b.RetiredAmount), ref.MustRat(b.EscrowedAmount)
		}
	}
	return new(big.Rat), new(big.Rat), new(big.Rat)
}

// RowChange is one entry of a Diff.
type RowChange struct {
	Table, PK string
	Kind      string // "insert" "delete" "update"
}

type BankChange struct {
	Addr, Denom string
	Delta       *big.Int
}

type Diff struct {
	Rows   []RowChange
	Bank   []BankChange
	Supply []BankChange // Addr empty
}

func (d Diff) Empty() bool { return len(d.Rows) == 0 && len(d.Bank) == 0 && len(d.Supply) == 0 }

func (d Diff) String() string {
	out := ""
	for _, r := range d.Rows {
		out += fmt.Sprintf("%s %s[%s]; ", r.Kind, r.Table, r.PK)
	}
	for _, b := range d.Bank {
		out += fmt.Sprintf("bank %s %s %s; ", b.Addr, b.Denom, b.Delta)
	}
	for _, b := range d.Supply {
		out += fmt.Sprintf("supply %s %s; ", b.Denom, b.Delta)
	}
	return out
}

// TablesTouched returns the sorted set of table names with row changes.
func (d Diff) TablesTouched() []string {
	m := map[string]bool{}
	for _, r := range d.Rows {
		m[r.Table] = true
	}
	var out []string
	for k := range m {
		out = append(out, k)
	}
	sort.Strings(out)
	return out
}

// Compare computes the row-level and bank-level diff pre -> post.
func Compare(pre, post *Snap) Diff {
	var d Diff
	tables := map[string]bool{}
	for t := range pre.Rows {
		tables[t] = true
	}
	for t := range post.Rows {
		tables[t] = true
	}
	var tnames []string
	for t := range tables {
		tnames = append(tnames, t)
	}
	sort.Strings(tnames)
	for _, t := range tnames {
		a, b := pre.Rows[t], post.Rows[t]
		var keys []string
		seen := map[string]bool{}
		for k := range a {
			keys = append(keys, k)
			seen[k] = true
		}
		for k := range b {
			if !seen[k] {
				keys = append(keys, k)
			}
		}
		sort.Strings(keys)
		for _, k := range keys {
			av, aok := a[k]
			bv, bok := b[k]
			switch {
			case aok && !bok:
				d.Rows = append(d.Rows, RowChange{t, k, "delete"})
			case !aok && bok:
				d.Rows = append(d.Rows, RowChange{t, k, "insert"})
			case string(av) != string(bv):
				d.Rows = append(d.Rows, RowChange{t, k, "update"})
			}
		}
	}
	addrs := map[string]bool{}
	for a := range pre.Bank {
		addrs[a] = true
	}
	for a := range post.Bank {
		addrs[a] = true
	}
	var as []string
	for a := range addrs {
		as = append(as, a)
	}
	sort.Strings(as)
	for _, a := range as {
		den := map[string]bool{}
		for dn := range pre.Bank[a] {
			den[dn] = true
		}
		for dn := range post.Bank[a] {
			den[dn] = true
		}
		var ds []string
		for dn := range den {
			ds = append(ds, dn)
		}
		sort.Strings(ds)
		for _, dn := range ds {
			delta := new(big.Int).Sub(post.BankOf(a, dn), pre.BankOf(a, dn))
			if delta.Sign() != 0 {
				d.Bank = append(d.Bank, BankChange{a, dn, delta})
			}
		}
	}
	den := map[string]bool{}
	for dn := range pre.Supply {
		den[dn] = true
	}
	for dn := range post.Supply {
		den[dn] = true
	}
	var ds []string
	for dn := range den {
		ds = append(ds, dn)
	}
	sort.Strings(ds)
	for _, dn := range ds {
		delta := new(big.Int).Sub(post.SupplyOf(dn), pre.SupplyOf(dn))
		if delta.Sign() != 0 {
			d.Supply = append(d.Supply, BankChange{"", dn, delta})
		}
	}
	return d
}

var _ ormtable.Table // keep import for documentation of the scanned interface
