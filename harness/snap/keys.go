package snap

import (
	"encoding/hex"
	"fmt"

	"google.golang.org/protobuf/reflect/protoreflect"
)

type protoreflectValue = protoreflect.Value

func renderKey(pk []protoreflect.Value) []string {
	out := make([]string, len(pk))
	for i, v := range pk {
		switch x := v.Interface().(type) {
		case []byte:
			out[i] = hex.EncodeToString(x)
		case protoreflect.Message:
			out[i] = fmt.Sprintf("%v", x.Interface())
		default:
			out[i] = fmt.Sprintf("%v", x)
		}
	}
	return out
}
