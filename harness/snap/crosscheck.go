package snap

import (
	"context"
	"fmt"

	"google.golang.org/protobuf/proto"

	"github.com/cosmos/cosmos-sdk/orm/model/ormdb"
	sdk "github.com/cosmos/cosmos-sdk/types"

	dataapi "github.com/regen-network/regen-ledger/api/v2/regen/data/v1"
	basketapi "github.com/regen-network/regen-ledger/api/v2/regen/ecocredit/basket/v1"
	marketapi "github.com/regen-network/regen-ledger/api/v2/regen/ecocredit/marketplace/v1"
	baseapi "github.com/regen-network/regen-ledger/api/v2/regen/ecocredit/v1"

	"verif/chain"
)

// RowsViaTables reads every table through the ORM table API (one List per table): the
// slower, original way of taking a snapshot. It is kept to cross-check the raw
// single-pass scan (TestSnapshotCrossCheck).
func (r *Reader) RowsViaTables(c *chain.Chain) map[string]map[string]proto.Message {
	ctx := sdk.WrapSDKContext(c.ReadCtx())
	out := map[string]map[string]proto.Message{}
	list := func(db ormdb.ModuleDB, mk func() proto.Message) {
		scanTable(ctx, db, mk, out)
	}
	for _, mk := range []func() proto.Message{
		func() proto.Message { return &baseapi.CreditType{} }, func() proto.Message { return &baseapi.Class{} },
		func() proto.Message { return &baseapi.ClassIssuer{} }, func() proto.Message { return &baseapi.Project{} },
		func() proto.Message { return &baseapi.Batch{} }, func() proto.Message { return &baseapi.ClassSequence{} },
		func() proto.Message { return &baseapi.ProjectSequence{} }, func() proto.Message { return &baseapi.BatchSequence{} },
		func() proto.Message { return &baseapi.BatchBalance{} }, func() proto.Message { return &baseapi.BatchSupply{} },
		func() proto.Message { return &baseapi.OriginTxIndex{} }, func() proto.Message { return &baseapi.BatchContract{} },
		func() proto.Message { return &baseapi.ClassCreatorAllowlist{} }, func() proto.Message { return &baseapi.AllowedClassCreator{} },
		func() proto.Message { return &baseapi.ClassFee{} }, func() proto.Message { return &baseapi.AllowedBridgeChain{} },
		func() proto.Message { return &baseapi.ProjectEnrollment{} }, func() proto.Message { return &baseapi.ProjectFee{} },
		func() proto.Message { return &basketapi.Basket{} }, func() proto.Message { return &basketapi.BasketClass{} },
		func() proto.Message { return &basketapi.BasketBalance{} }, func() proto.Message { return &basketapi.BasketFee{} },
		func() proto.Message { return &marketapi.SellOrder{} }, func() proto.Message { return &marketapi.AllowedDenom{} },
		func() proto.Message { return &marketapi.Market{} }, func() proto.Message { return &marketapi.FeeParams{} },
	} {
		list(r.eco, mk)
	}
	for _, mk := range []func() proto.Message{
		func() proto.Message { return &dataapi.DataID{} }, func() proto.Message { return &dataapi.DataAnchor{} },
		func() proto.Message { return &dataapi.DataAttestor{} }, func() proto.Message { return &dataapi.Resolver{} },
		func() proto.Message { return &dataapi.DataResolver{} },
	} {
		list(r.data, mk)
	}
	return out
}

func scanTable(ctx context.Context, db ormdb.ModuleDB, mk func() proto.Message, out map[string]map[string]proto.Message) {
	p0 := mk()
	tbl := db.GetTable(p0)
	if tbl == nil {
		panic(fmt.Sprintf("no table for %T", p0))
	}
	it, err := tbl.List(ctx, nil)
	if err != nil {
		panic(err)
	}
	defer it.Close()
	name := string(p0.ProtoReflect().Descriptor().FullName())
	for it.Next() {
		m := mk()
		if err := it.UnmarshalMessage(m); err != nil {
			panic(err)
		}
		_, pk, err := it.Keys()
		if err != nil {
			panic(err)
		}
		if out[name] == nil {
			out[name] = map[string]proto.Message{}
		}
		out[name][pkString(pk)] = m
	}
}

// SameRows compares two row maps; it returns a description of the first difference.
func SameRows(a, b map[string]map[string]proto.Message) string {
	for t, rows := range a {
		for k, v := range rows {
			w, ok := b[t][k]
			if !ok {
				return fmt.Sprintf("row %s[%s] only in the first", t, k)
			}
			if !proto.Equal(v, w) {
				return fmt.Sprintf("row %s[%s] differs: %v vs %v", t, k, v, w)
			}
		}
	}
	for t, rows := range b {
		for k := range rows {
			if _, ok := a[t][k]; !ok {
				return fmt.Sprintf("row %s[%s] only in the second", t, k)
			}
		}
	}
	return ""
}
