package harness

import (
	"testing"

	"verif/eng"
	"verif/mon"
)

// One profile + monitor set per stateful property.
var (
	profC01 = eng.ProfileFull("C01", map[string]int{"bulkHolders": 1})
	profC02 = eng.ProfileFull("C02", map[string]int{"createBatch": 8, "mint": 10, "bridgeReceive": 6, "seal": 5, "addBridgeChain": 2})
	profC04 = eng.ProfileFull("C04", map[string]int{"retire": 8, "send": 10, "take": 9, "buy": 10})
	profC06 = func() *eng.Profile {
		p := eng.ProfileFull("C06", map[string]int{"sell": 14, "updSell": 12, "cancelSell": 6, "buy": 14, "block": 12, "removeDenom": 2, "addDenom": 2, "bulkOrders": 1, "bulkBook": 2})
		p.VestingPct = 10
		return p
	}()
	profC03 = func() *eng.Profile {
		p := eng.ProfileFull("C03", map[string]int{"sendFromPool": 3, "burnRegen": 2, "buy": 12, "sell": 10, "bankSend": 5, "bulkOrders": 1, "bulkBook": 1})
		p.VestingPct = 15
		return p
	}()
	profC05 = withPrelude(eng.ProfileFull("C05", map[string]int{"put": 16, "take": 14, "bankSend": 8, "basketCreate": 5, "createBatch": 8, "bulkBasket": 1}),
		"createClass", "createProject", "createBatch", "createBatch", "basketCreate", "basketCreate", "put", "put", "put", "bankSend", "block")
	_       = func() int { profC05.VestingPct = 10; return 0 }()
	profC13 = withPrelude(eng.ProfileFull("C13", map[string]int{"createBatch": 9, "mint": 9, "bridgeReceive": 12, "bridge": 9, "addBridgeChain": 3, "removeBridgeChain": 2}),
		"createClass", "addBridgeChain", "bridgeReceive", "bridgeReceive", "createProject", "createBatch", "mint", "bridge", "block")
	profC14 = func() *eng.Profile {
		p := eng.ProfileFull("C14", map[string]int{"createClass": 9, "createProject": 9, "createBatch": 10, "bridgeReceive": 6, "basketCreate": 5, "addCreditType": 2})
		p.PrefixIDs = true
		return p
	}()
	profC07 = func() *eng.Profile {
		p := eng.ProfileFull("C07", map[string]int{"sell": 14, "buy": 22, "setFeeParams": 5, "updSell": 6, "addDenom": 3, "faucet": 2, "put": 3, "take": 3, "bulkBook": 2})
		p.VestingPct = 20
		return p
	}()
	profC11 = withPrelude(eng.ProfileFull("C11", map[string]int{"put": 20, "take": 16, "basketCreate": 7, "updDateCriteria": 4, "createBatch": 12, "block": 10, "bankSend": 4, "bulkBasket": 1}),
		"createClass", "createProject", "createBatch", "createBatch", "createBatch", "basketCreate", "put", "put", "put", "take", "block")
	profC08 = eng.ProfileFull("C08", map[string]int{"updClassAdmin": 6, "updClassIssuers": 6, "updClassMeta": 4, "updProjectAdmin": 5, "updProjectMeta": 4, "updBatchMeta": 5,
		"seal": 4, "mint": 6, "updCurator": 5, "setAllowlist": 3, "addCreator": 3, "removeCreator": 3, "createClass": 6, "createProject": 5, "createBatch": 7,
		"updSell": 6, "cancelSell": 5, "bridgeReceive": 5, "defineResolver": 4, "registerResolver": 6, "anchor": 1, "unimplemented": 2,
		"addCreditType": 2, "updClassFee": 2, "addBridgeChain": 2, "removeBridgeChain": 2, "updBasketFee": 2, "updDateCriteria": 3, "addDenom": 2, "removeDenom": 2, "setFeeParams": 2, "sendFromPool": 3})
	profC12 = eng.ProfileFull("C12", map[string]int{"sell": 16, "updSell": 10, "buy": 10, "block": 18, "cancelSell": 3, "bulkOrders": 1})
)

func withPrelude(p *eng.Profile, kinds ...string) *eng.Profile {
	p.Prelude = kinds
	return p
}

func monsC01() []eng.Monitor { return []eng.Monitor{&mon.C01{}} }
func monsC02() []eng.Monitor { return []eng.Monitor{&mon.C02{}} }
func monsC04() []eng.Monitor { return []eng.Monitor{&mon.C04{}} }
func monsC06() []eng.Monitor { return []eng.Monitor{&mon.C06{}} }
func monsC03() []eng.Monitor { return []eng.Monitor{&mon.C03{}} }
func monsC05() []eng.Monitor { return []eng.Monitor{&mon.C05{}} }
func monsC13() []eng.Monitor { return []eng.Monitor{&mon.C13{}} }
func monsC14() []eng.Monitor { return []eng.Monitor{&mon.C14{}} }
func monsC07() []eng.Monitor { return []eng.Monitor{&mon.C07{}} }
func monsC11() []eng.Monitor { return []eng.Monitor{&mon.C11{}} }
func monsC08() []eng.Monitor { return []eng.Monitor{&mon.C08{}} }
func profC09() *eng.Profile {
	p := eng.ProfileFull("C09", map[string]int{"anchor": 4, "attest": 4, "defineResolver": 4, "registerResolver": 4, "roundtrip": 6, "updClassFee": 2, "updBasketFee": 2, "setFeeParams": 2})
	p.EqualDatesPct = 3
	return p
}

// C09's monitor owns the custom "roundtrip" step, so profile and monitor are built together.
func c09() (*eng.Profile, func() []eng.Monitor) {
	p := profC09()
	var cur *mon.C09
	p.Custom = map[string]func(w *eng.World){"roundtrip": func(w *eng.World) { cur.RoundTripStep(w) }}
	return p, func() []eng.Monitor { cur = &mon.C09{}; return []eng.Monitor{cur} }
}

var profC16 = func() *eng.Profile {
	p := &eng.Profile{Name: "C16", Weights: map[string]int{"anchor": 12, "attest": 8, "defineResolver": 4, "registerResolver": 8, "block": 6, "restart": 1, "createClass": 1, "speculate": 2, "bulkAttest": 1},
		Prelude: []string{"anchor", "anchor", "defineResolver", "block"}, HashPool: 14}
	p.Hashers = []eng.HasherSpec{{}, {Kind: "minlen", MinLen: 1}, {Kind: "minlen", MinLen: 8}, {Kind: "minlen", MinLen: 2}}
	for _, k := range []int{1, 2, 3, 16} {
		for _, ml := range []int{1, 4, 7, 8} {
			p.Hashers = append(p.Hashers, eng.HasherSpec{Kind: "weak", K: k, MinLen: ml}, eng.HasherSpec{Kind: "weak", K: k, MinLen: ml, Repeat: true})
		}
	}
	return p
}()

func monsC16() []eng.Monitor { return []eng.Monitor{&mon.C16{}} }
func c17() (*eng.Profile, func() []eng.Monitor) {
	p := eng.ProfileFull("C17", map[string]int{"query": 30, "get": 8, "anchor": 4, "attest": 5, "defineResolver": 4, "registerResolver": 5,
		"createClass": 5, "createProject": 6, "createBatch": 8, "sell": 10, "updClassAdmin": 2, "updProjectAdmin": 2, "bulkOrders": 1, "bulkBasket": 1, "bulkAttest": 1, "bulkHolders": 2})
	p.PrefixIDs = true
	p.PopulatedPct = 12
	var cur *mon.C17
	p.Custom = map[string]func(w *eng.World){"query": func(w *eng.World) { cur.QueryStep(w) }, "get": func(w *eng.World) { cur.SingleStep(w) }}
	return p, func() []eng.Monitor { cur = &mon.C17{}; return []eng.Monitor{cur} }
}

var profC18 = func() *eng.Profile {
	p := &eng.Profile{Name: "C18", Weights: map[string]int{"updClassFee": 8, "updBasketFee": 8, "setFeeParams": 10, "setAllowlist": 3, "addCreator": 3, "removeCreator": 2,
		"addDenom": 3, "removeDenom": 2, "createClass": 6, "basketCreate": 6, "createProject": 2, "createBatch": 3, "sell": 3, "buy": 4, "put": 2, "take": 2, "block": 3, "faucet": 1, "addCreditType": 1, "speculate": 3},
		Prelude: []string{"createClass", "createProject", "createBatch"}, RemapAny: true}
	p.AllowZeroFeeGenesis = true
	p.VestingPct = 10
	p.AllowEmptyDenoms = true
	p.HostilePct = 30
	p.GenesisFeeRates = []string{"", "0", "0.0", "0.000001", "0.01", "0.1", "1", "1.5", "2", "0.3333333333333333333333333333333333", "0.2999999999999999999999999999999999995", "1e-2"}
	return p
}()

func monsC18() []eng.Monitor { return []eng.Monitor{&mon.C18{}} }
func monsC12() []eng.Monitor { return []eng.Monitor{&mon.C12{}} }

func TestC01(t *testing.T)        { stateful(t, profC01, monsC01) }
func TestC01Witness(t *testing.T) { witnessStateful(t, "C01", profC01, monsC01) }
func TestC01Replay(t *testing.T)  { replayStateful(t, "C01", profC01, monsC01) }

func TestC02(t *testing.T)        { stateful(t, profC02, monsC02) }
func TestC02Witness(t *testing.T) { witnessStateful(t, "C02", profC02, monsC02) }
func TestC02Replay(t *testing.T)  { replayStateful(t, "C02", profC02, monsC02) }

func TestC04(t *testing.T)        { stateful(t, profC04, monsC04) }
func TestC04Witness(t *testing.T) { witnessStateful(t, "C04", profC04, monsC04) }
func TestC04Replay(t *testing.T)  { replayStateful(t, "C04", profC04, monsC04) }

func TestC06(t *testing.T)        { stateful(t, profC06, monsC06) }
func TestC06Witness(t *testing.T) { witnessStateful(t, "C06", profC06, monsC06) }
func TestC06Replay(t *testing.T)  { replayStateful(t, "C06", profC06, monsC06) }

func TestC12(t *testing.T)        { stateful(t, profC12, monsC12) }
func TestC12Witness(t *testing.T) { witnessStateful(t, "C12", profC12, monsC12) }
func TestC12Replay(t *testing.T)  { replayStateful(t, "C12", profC12, monsC12) }

func TestC03(t *testing.T)        { stateful(t, profC03, monsC03) }
func TestC03Witness(t *testing.T) { witnessStateful(t, "C03", profC03, monsC03) }
func TestC03Replay(t *testing.T)  { replayStateful(t, "C03", profC03, monsC03) }

func TestC05(t *testing.T)        { stateful(t, profC05, monsC05) }
func TestC05Witness(t *testing.T) { witnessStateful(t, "C05", profC05, monsC05) }
func TestC05Replay(t *testing.T)  { replayStateful(t, "C05", profC05, monsC05) }

func TestC13(t *testing.T)        { stateful(t, profC13, monsC13) }
func TestC13Witness(t *testing.T) { witnessStateful(t, "C13", profC13, monsC13) }
func TestC13Replay(t *testing.T)  { replayStateful(t, "C13", profC13, monsC13) }

func TestC14(t *testing.T)        { stateful(t, profC14, monsC14) }
func TestC14Witness(t *testing.T) { witnessStateful(t, "C14", profC14, monsC14) }
func TestC14Replay(t *testing.T)  { replayStateful(t, "C14", profC14, monsC14) }

func TestC07(t *testing.T)        { stateful(t, profC07, monsC07) }
func TestC07Witness(t *testing.T) { witnessStateful(t, "C07", profC07, monsC07) }
func TestC07Replay(t *testing.T)  { replayStateful(t, "C07", profC07, monsC07) }

func TestC11(t *testing.T)        { stateful(t, profC11, monsC11) }
func TestC11Witness(t *testing.T) { witnessStateful(t, "C11", profC11, monsC11) }
func TestC11Replay(t *testing.T)  { replayStateful(t, "C11", profC11, monsC11) }

func TestC08(t *testing.T)        { stateful(t, profC08, monsC08) }
func TestC08Witness(t *testing.T) { witnessStateful(t, "C08", profC08, monsC08) }
func TestC08Replay(t *testing.T)  { replayStateful(t, "C08", profC08, monsC08) }

func TestC09(t *testing.T)        { p, mk := c09(); stateful(t, p, mk) }
func TestC09Witness(t *testing.T) { p, mk := c09(); witnessStateful(t, "C09", p, mk) }
func TestC09Replay(t *testing.T)  { p, mk := c09(); replayStateful(t, "C09", p, mk) }

func TestC16(t *testing.T)        { stateful(t, profC16, monsC16) }
func TestC16Witness(t *testing.T) { witnessStateful(t, "C16", profC16, monsC16) }
func TestC16Replay(t *testing.T)  { replayStateful(t, "C16", profC16, monsC16) }

func TestC17(t *testing.T)        { p, mk := c17(); stateful(t, p, mk) }
func TestC17Witness(t *testing.T) { p, mk := c17(); witnessStateful(t, "C17", p, mk) }
func TestC17Replay(t *testing.T)  { p, mk := c17(); replayStateful(t, "C17", p, mk) }

func TestC18(t *testing.T)        { stateful(t, profC18, monsC18) }
func TestC18Witness(t *testing.T) { witnessStateful(t, "C18", profC18, monsC18) }
func TestC18Replay(t *testing.T)  { replayStateful(t, "C18", profC18, monsC18) }
