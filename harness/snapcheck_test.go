package harness

import (
	"testing"

	"pgregory.net/rapid"

	"verif/eng"
	"verif/snap"
)

// crossMon compares, after every step, the raw single-pass snapshot with a scan through
// the ORM table API (self-check of the snapshot reader; not a property check).
type crossMon struct{ eng.BaseMonitor }

func (crossMon) Property() string { return "SNAP" }
func (crossMon) check(w *eng.World) {
	if d := snap.SameRows(w.S.Rows, w.R.RowsViaTables(w.C)); d != "" {
		w.Fail("harness: snapshot readers disagree: %s", d)
	}
}
func (m crossMon) Init(w *eng.World)                          { m.check(w) }
func (m crossMon) AfterMsg(w *eng.World, st *eng.MsgStep)     { m.check(w) }
func (m crossMon) AfterBlock(w *eng.World, st *eng.BlockStep) { m.check(w) }

func TestSnapshotCrossCheck(t *testing.T) {
	prof := eng.ProfileFull("SNAP", map[string]int{"anchor": 4, "attest": 4, "defineResolver": 3, "registerResolver": 4})
	prof.PrefixIDs = true
	rapid.Check(t, func(t *rapid.T) {
		eng.RunHistory(t, prof, crossMon{})
	})
}
