package harness

import (
	"encoding/json"
	"fmt"
	"os"
	"os/exec"
	"strings"
	"sync"
	"sync/atomic"
	"testing"
	"time"

	codectypes "github.com/cosmos/cosmos-sdk/codec/types"
	sdk "github.com/cosmos/cosmos-sdk/types"
	"pgregory.net/rapid"

	"verif/eng"
	"verif/mon"
)

var profC10 = func() *eng.Profile {
	p := eng.ProfileFull("C10", map[string]int{"restart": 4, "block": 10, "anchor": 3, "attest": 3, "defineResolver": 2, "registerResolver": 3, "speculate": 6})
	p.VestingPct = 10
	return p
}()

func failT(t interface {
	Fatalf(string, ...interface{})
}) eng.FailFunc {
	return func(f string, a ...interface{}) { t.Fatalf(f, a...) }
}

// variant returns a copy of the trace with a different set of restart points.
func variant(tr *eng.Trace, mode string) *eng.Trace {
	c := *tr
	c.Steps = append([]eng.TStep(nil), tr.Steps...)
	for i := range c.Steps {
		switch c.Steps[i].Kind {
		case "block", "restart":
			switch mode {
			case "all":
				c.Steps[i].Kind = "restart"
			case "none":
				c.Steps[i].Kind = "block"
			case "flip":
				if c.Steps[i].Kind == "block" {
					c.Steps[i].Kind = "restart"
				} else {
					c.Steps[i].Kind = "block"
				}
			}
		}
	}
	return &c
}

func withoutFailed(tr *eng.Trace, oks []bool) *eng.Trace {
	c := *tr
	c.Steps = nil
	j := 0
	for _, s := range tr.Steps {
		switch s.Kind {
		case "block", "restart", "faucet", "spec":
			c.Steps = append(c.Steps, s)
		default:
			if oks[j] {
				c.Steps = append(c.Steps, s)
			}
			j++
		}
	}
	return &c
}

// withoutSpec drops the speculative (discarded-branch) executions.
func withoutSpec(tr *eng.Trace) (*eng.Trace, int) {
	c := *tr
	c.Steps = nil
	n := 0
	for _, s := range tr.Steps {
		if s.Kind == "spec" {
			n++
			continue
		}
		c.Steps = append(c.Steps, s)
	}
	return &c, n
}

// traceMsgs returns the binary messages of a trace (speculative ones included).
func traceMsgs(tr *eng.Trace) [][]byte {
	var out [][]byte
	for _, s := range tr.Steps {
		if len(s.Bin) > 0 {
			out = append(out, s.Bin)
		}
		for _, x := range s.Sub {
			if len(x.Bin) > 0 {
				out = append(out, x.Bin)
			}
		}
	}
	return out
}

func firstDifference(a, b []string) string {
	for i := 0; i < len(a) && i < len(b); i++ {
		if a[i] != b[i] {
			return fmt.Sprintf("step %d:\n  first : %s\n  second: %s", i, a[i], b[i])
		}
	}
	return fmt.Sprintf("length %d vs %d", len(a), len(b))
}

func checkC10(t *rapid.T) {
	rec := &mon.Recorder{}
	prof := profC10
	prof2 := *prof
	g := eng.GenGenesis(t, prof)
	w := eng.NewWorld(t, g, &prof2, failT(t), rec)
	step := 0
	t.Repeat(map[string]func(*rapid.T){"step": func(t *rapid.T) {
		w.T = t
		k := ""
		if step < len(prof.Prelude) {
			k = prof.Prelude[step]
		} else {
			k = drawKind(prof, t)
		}
		step++
		w.Step(k)
	}})
	w.NextBlock(w.C.Time.Add(time.Second), false) // commit the last block so that its hash is compared
	tr := w.Trace
	report := func(key, what string, a, b []string) {
		w.Violation("C10", key, "%s: %s", what, firstDifference(a, b))
	}
	restartsInside, acceptedAfter := 0, 0
	for i, s := range tr.Steps {
		if s.Kind == "restart" && i > 0 {
			restartsInside++
			acceptedAfter = 0
		} else if s.OK != nil && *s.OK && restartsInside > 0 {
			acceptedAfter++
		}
	}
	// (b) same trace again, same process
	r2 := &mon.Recorder{}
	eng.Replay(tr, prof, failT(t), r2)
	if strings.Join(rec.Lines, "\n") != strings.Join(r2.Lines, "\n") {
		report("rerun-differs", "second execution of the same trace differs", rec.Lines, r2.Lines)
	}
	// (c) different restart subsets
	for _, mode := range []string{"all", "none", "flip"} {
		r3 := &mon.Recorder{}
		eng.Replay(variant(tr, mode), prof, failT(t), r3)
		if strings.Join(rec.Lines, "\n") != strings.Join(r3.Lines, "\n") {
			report("restart-changes-result", "execution with restart set '"+mode+"' differs", rec.Lines, r3.Lines)
		}
	}
	// the process's local time zone is not an input: same trace with time.Local far from UTC
	{
		zones := []*time.Location{time.FixedZone("W", -8*3600), time.FixedZone("E", 9*3600), time.FixedZone("EE", 14*3600), time.FixedZone("WW", -12*3600)}
		saved := time.Local
		time.Local = zones[len(tr.Steps)%len(zones)]
		rz := &mon.Recorder{}
		eng.Replay(tr, prof, failT(t), rz)
		time.Local = saved
		if strings.Join(rec.Lines, "\n") != strings.Join(rz.Lines, "\n") {
			report("time-zone-changes-result", "execution with another local time zone differs", rec.Lines, rz.Lines)
		}
	}
	// schedules: the same trace (no restarts) while other goroutines keep simulating its messages on
	// discarded branches of committed state through the same keepers
	if msgs := traceMsgs(tr); len(msgs) > 0 {
		rc := &mon.Recorder{}
		var stop atomic.Bool
		var wg sync.WaitGroup
		eng.ReplayHook(variant(tr, "none"), prof, failT(t), func(w *eng.World) {
			c := w.C
			for g := 0; g < 3; g++ {
				wg.Add(1)
				go func(g int) {
					defer wg.Done()
					for i := g; !stop.Load(); i++ {
						var any codectypes.Any
						var m sdk.Msg
						if any.Unmarshal(msgs[i%len(msgs)]) != nil || c.Cdc.UnpackAny(&any, &m) != nil {
							continue
						}
						c.Simulate(m)
					}
				}(g)
			}
		}, rc)
		stop.Store(true)
		wg.Wait()
		if strings.Join(rec.Lines, "\n") != strings.Join(rc.Lines, "\n") {
			report("concurrent-simulation-changes-result", "execution while other goroutines simulate messages differs", rec.Lines, rc.Lines)
		}
		eng.G.Count("C10/executions", 1)
	}
	// metamorphic: dropping the failed messages leaves every block hash unchanged
	r4 := &mon.Recorder{}
	eng.Replay(withoutFailed(tr, rec.OKs), prof, failT(t), r4)
	if strings.Join(rec.BlockHashes(), "\n") != strings.Join(r4.BlockHashes(), "\n") {
		report("failed-message-left-trace", "block hashes change when the failed messages are removed", rec.BlockHashes(), r4.BlockHashes())
	}
	// metamorphic: executions on discarded branches (simulations, rolled-back transactions) are
	// invisible: without them every result and hash is the same
	if tr5, n := withoutSpec(tr); n > 0 {
		r5 := &mon.Recorder{}
		eng.Replay(tr5, prof, failT(t), r5)
		if strings.Join(rec.Lines, "\n") != strings.Join(r5.Lines, "\n") {
			report("discarded-branch-left-trace", "results change when the speculative executions are removed", rec.Lines, r5.Lines)
		}
		eng.G.Count("C10/executions", 1)
		eng.G.Label("with-speculative-execution")
	}
	// (d) a second OS process (thorough tier)
	if os.Getenv("VERIF_TIER") == "thorough" && os.Getenv("VERIF_C10_CHILD") == "" {
		lines, err := runChild(tr)
		if err != nil {
			t.Fatalf("harness: child process failed: %v", err)
		}
		if strings.Join(rec.Lines, "\n") != strings.Join(lines, "\n") {
			report("other-process-differs", "execution in a second OS process differs", rec.Lines, lines)
		}
		eng.G.Count("C10/child-process-executions", 1)
	}
	eng.G.Eval()
	for f := range w.Flags {
		eng.G.Label(f)
	}
	eng.G.Count("steps", len(tr.Steps))
	eng.G.Count("C10/executions", 7)
	nt := restartsInside > 0 && acceptedAfter >= 5 && (w.Accepted["anchor"]+w.Accepted["attest"]+w.Accepted["registerResolver"]+w.Accepted["defineResolver"]) > 0
	if nt {
		eng.G.Label("nontrivial")
		eng.G.NT(strings.Join(w.Sig, ","))
		if eng.G.WantSample() {
			eng.G.Sample(tr.Abstract(40))
		}
	}
}

func drawKind(p *eng.Profile, t *rapid.T) string { return p.DrawKind(t) }

func runChild(tr *eng.Trace) ([]string, error) {
	f, err := os.CreateTemp("", "c10-*.json")
	if err != nil {
		return nil, err
	}
	defer os.Remove(f.Name())
	bz, _ := json.Marshal(tr)
	f.Write(bz)
	f.Close()
	out := f.Name() + ".out"
	defer os.Remove(out)
	cmd := exec.Command(os.Args[0], "-test.run", "^TestC10Child$")
	// the second process also lives in another time zone and with another GOMAXPROCS
	tz := []string{"America/Los_Angeles", "Asia/Tokyo", "Pacific/Kiritimati", "UTC"}[len(tr.Steps)%4]
	cmd.Env = append(os.Environ(), "VERIF_C10_CHILD="+f.Name(), "VERIF_C10_OUT="+out, "VERIF_STATS=", "TZ="+tz, "GOMAXPROCS=2")
	if b, err := cmd.CombinedOutput(); err != nil {
		return nil, fmt.Errorf("%v: %s", err, b)
	}
	res, err := os.ReadFile(out)
	if err != nil {
		return nil, err
	}
	var lines []string
	return lines, json.Unmarshal(res, &lines)
}

func TestC10Child(t *testing.T) {
	p := os.Getenv("VERIF_C10_CHILD")
	if p == "" {
		t.Skip("not a child")
	}
	tr, err := eng.LoadTrace(p)
	if err != nil {
		t.Fatal(err)
	}
	r := &mon.Recorder{}
	eng.Replay(tr, profC10, failT(t), r)
	bz, _ := json.Marshal(r.Lines)
	if err := os.WriteFile(os.Getenv("VERIF_C10_OUT"), bz, 0o644); err != nil {
		t.Fatal(err)
	}
}

func TestC10(t *testing.T) { rapid.Check(t, checkC10) }

// replayC10 runs the C10 comparisons on a saved trace.
func replayC10(t *testing.T, tr *eng.Trace) {
	r1 := &mon.Recorder{}
	eng.Replay(tr, profC10, failT(t), r1)
	for _, mode := range []string{"same", "all", "none", "flip"} {
		r := &mon.Recorder{}
		eng.Replay(variant(tr, mode), profC10, failT(t), r)
		if strings.Join(r1.Lines, "\n") != strings.Join(r.Lines, "\n") {
			t.Fatalf("PROPERTY-FAIL C10: execution '%s' differs: %s", mode, firstDifference(r1.Lines, r.Lines))
		}
	}
	r4 := &mon.Recorder{}
	eng.Replay(withoutFailed(tr, r1.OKs), profC10, failT(t), r4)
	if strings.Join(r1.BlockHashes(), "\n") != strings.Join(r4.BlockHashes(), "\n") {
		t.Fatalf("PROPERTY-FAIL C10: block hashes change when failed messages are removed: %s", firstDifference(r1.BlockHashes(), r4.BlockHashes()))
	}
}

func TestC10Witness(t *testing.T) {
	for _, f := range witnessFiles("C10", ".trace.json") {
		tr, err := eng.LoadTrace(f)
		if err != nil {
			t.Fatalf("harness: %v", err)
		}
		replayC10(t, tr)
	}
}

func TestC10Replay(t *testing.T) {
	p := os.Getenv("VERIF_REPLAY")
	if p == "" {
		t.Skip("VERIF_REPLAY not set")
	}
	tr, err := eng.LoadTrace(p)
	if err != nil {
		t.Fatalf("harness: %v", err)
	}
	replayC10(t, tr)
}
