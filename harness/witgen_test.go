package harness

import (
	"encoding/json"
	"os"
	"path/filepath"
	"testing"
	"time"

	sdk "github.com/cosmos/cosmos-sdk/types"
	gogotypes "github.com/cosmos/gogoproto/types"

	"github.com/regen-network/regen-ledger/x/data/v3"
	basetypes "github.com/regen-network/regen-ledger/x/ecocredit/v3/base/types/v1"
	baskettypes "github.com/regen-network/regen-ledger/x/ecocredit/v3/basket/types/v1"
	markettypes "github.com/regen-network/regen-ledger/x/ecocredit/v3/marketplace/types/v1"

	"verif/chain"
	"verif/eng"
)

// TestMakeWitnesses (dev tool, VERIF_MAKE_WITNESS=1) writes the hand-built
// minimal witness traces under /verif/witness. They are committed; the checks
// only replay them.
func TestMakeWitnesses(t *testing.T) {
	if os.Getenv("VERIF_MAKE_WITNESS") == "" {
		t.Skip("dev tool")
	}
	acc := eng.DefaultAccounts()
	a0, a1, a2 := acc[0].String(), acc[1].String(), acc[2].String()
	gov := chain.Authority().String()
	fee := sdk.NewInt64Coin("stake", 20000000)
	d := func(y int, m time.Month, day int) *time.Time {
		x := time.Date(y, m, day, 0, 0, 0, 0, time.UTC)
		return &x
	}
	baseGen := func() eng.GenesisSpec {
		g := eng.GenesisSpec{TimeUnix: 1_700_000_000}
		for _, a := range acc {
			g.Funds = append(g.Funds, eng.Fund{Addr: a.String(), Coins: eng.FundsPerAcc})
		}
		return g
	}
	type step struct {
		kind string
		msg  sdk.Msg
	}
	setup := []step{
		{"createClass", &basetypes.MsgCreateClass{Admin: a0, Issuers: []string{a0}, CreditTypeAbbrev: "C", Fee: &fee}},
		{"createProject", &basetypes.MsgCreateProject{Admin: a0, ClassId: "C01", Jurisdiction: "US"}},
	}
	batch := func(start, end *time.Time, amt string) step {
		return step{"createBatch", &basetypes.MsgCreateBatch{Issuer: a0, ProjectId: "C01-001", Metadata: "m", StartDate: start, EndDate: end,
			Issuance: []*basetypes.BatchIssuance{{Recipient: a1, TradableAmount: amt}}}}
	}
	basketStep := func(dc *baskettypes.DateCriteria) step {
		return step{"basketCreate", &baskettypes.MsgCreate{Curator: a2, Name: "NCT", CreditTypeAbbrev: "C", AllowedClasses: []string{"C01"}, DisableAutoRetire: true, DateCriteria: dc, Fee: sdk.Coins{fee}}}
	}
	write := func(prop, key, name string, g eng.GenesisSpec, steps []step) {
		w := eng.NewWorld(nil, g, profC01, func(f string, a ...interface{}) { t.Fatalf(f, a...) })
		for _, s := range steps {
			if s.msg == nil {
				w.NextBlock(w.C.Time.Add(10*time.Second), false)
				continue
			}
			st := w.Deliver(s.kind, s.msg)
			t.Logf("%s %s: ok=%v err=%v", name, s.kind, st.Res.OK, st.Res.Err)
		}
		w.Trace.Property, w.Trace.Key = prop, key
		dir := filepath.Join(eng.Root(), "witness", prop)
		_ = os.MkdirAll(dir, 0o755)
		bz, _ := json.MarshalIndent(w.Trace, "", " ")
		if err := os.WriteFile(filepath.Join(dir, name+".trace.json"), bz, 0o644); err != nil {
			t.Fatal(err)
		}
	}
	with := func(s ...step) []step { return append(append([]step(nil), setup...), s...) }

	// ---- open findings ----
	write("C09", "validate-eco/Error in JSON for table regen.ecocredit.v#.Batch: the batch end date*", "F1-batch-equal-dates", baseGen(),
		with(batch(d(2022, 1, 1), d(2022, 1, 1), "10")))
	write("C09", "validate-data/Error in JSON for table regen.data.v#.Resolver: manager: empty address*", "F2-public-resolver", baseGen(),
		[]step{{"defineResolver", &data.MsgDefineResolver{Definer: a0, ResolverUrl: "https://foo.bar", Public: true}}})
	big := []step{batch(d(2020, 1, 1), d(2021, 1, 1), "100000000000000000000000000001"), basketStep(nil),
		{"put", &baskettypes.MsgPut{Owner: a1, BasketDenom: "eco.uC.NCT", Credits: []*baskettypes.BasketCredit{{BatchDenom: "C01-001-20200101-20210101-001", Amount: "100000000000000000000000000000"}}}},
		{"put", &baskettypes.MsgPut{Owner: a1, BasketDenom: "eco.uC.NCT", Credits: []*baskettypes.BasketCredit{{BatchDenom: "C01-001-20200101-20210101-001", Amount: "0.000001"}}}}}
	write("C05", "registered-invariant-false-alarm/>34-digits", "F3-basket-invariant-34-digits", baseGen(), with(big...))
	write("C09", "invariant/ecocredit/basket-supply", "F3-basket-invariant-34-digits", baseGen(), with(big...))
	ask := sdk.NewInt64Coin("stake", 10)
	maxFee := sdk.NewInt64Coin("stake", 1000)
	write("C07", "buyer-overcharged/>34-digits", "F6-buyer-overcharged-34-digits", baseGen(), with(
		batch(d(2020, 1, 1), d(2021, 1, 1), "10"),
		step{"setFeeParams", &markettypes.MsgGovSetFeeParams{Authority: gov, Fees: &markettypes.FeeParams{BuyerPercentageFee: "0.2999999999999999999999999999999999995"}}},
		step{"sell", &markettypes.MsgSell{Seller: a1, Orders: []*markettypes.MsgSell_Order{{BatchDenom: "C01-001-20200101-20210101-001", Quantity: "1", AskPrice: &ask, DisableAutoRetire: true}}}},
		step{"buy", &markettypes.MsgBuyDirect{Buyer: a2, Orders: []*markettypes.MsgBuyDirect_Order{{SellOrderId: 1, Quantity: "1", BidPrice: &ask, DisableAutoRetire: true, MaxFeeAmount: &maxFee}}}}))
	write("C11", "put-rejected/>34-digits", "F7-put-rejected-34-digits", baseGen(), with(
		batch(d(2020, 1, 1), d(2021, 1, 1), "99999999999999999999999999999.999999"), basketStep(nil),
		step{"put", &baskettypes.MsgPut{Owner: a1, BasketDenom: "eco.uC.NCT", Credits: []*baskettypes.BasketCredit{{BatchDenom: "C01-001-20200101-20210101-001", Amount: "99999999999999999999999999999.999999"}}}}))
	write("C11", "put-rejected/>34-digits-as-spelled", "F15-put-rejected-34-digits-as-spelled", baseGen(), with(
		batch(d(2020, 1, 1), d(2021, 1, 1), "1000000000000000000000000000000"), basketStep(nil),
		step{"put", &baskettypes.MsgPut{Owner: a1, BasketDenom: "eco.uC.NCT", Credits: []*baskettypes.BasketCredit{{BatchDenom: "C01-001-20200101-20210101-001", Amount: "1000000000000000000000000000000"}}}},
		step{"take", &baskettypes.MsgTake{Owner: a1, BasketDenom: "eco.uC.NCT", Amount: "1000000000000000000000000000000000000", RetireOnTake: false}},
		step{"put", &baskettypes.MsgPut{Owner: a1, BasketDenom: "eco.uC.NCT", Credits: []*baskettypes.BasketCredit{{BatchDenom: "C01-001-20200101-20210101-001", Amount: "1000000000000000000000000000000.000000"}}}}))
	write("C11", "put-rejected/window>292y", "F12-put-rejected-window-292y", baseGen(), with(
		batch(d(1, 1, 1), d(2, 1, 1), "10"), basketStep(&baskettypes.DateCriteria{StartDateWindow: &gogotypes.Duration{Seconds: 3000 * 365 * 24 * 3600}}),
		step{"put", &baskettypes.MsgPut{Owner: a1, BasketDenom: "eco.uC.NCT", Credits: []*baskettypes.BasketCredit{{BatchDenom: "C01-001-00010101-00020101-001", Amount: "1"}}}}))

	// ---- regressions of the repaired defects ----
	write("C09", "", "fixed-F4-epoch-start-date-in-basket", baseGen(), with(
		batch(d(1970, 1, 1), d(1971, 1, 1), "10"), basketStep(nil),
		step{"put", &baskettypes.MsgPut{Owner: a1, BasketDenom: "eco.uC.NCT", Credits: []*baskettypes.BasketCredit{{BatchDenom: "C01-001-19700101-19710101-001", Amount: "1"}}}}))
	write("C05", "", "fixed-F13-take-amount-leading-zero", baseGen(), with(
		batch(d(2020, 1, 1), d(2021, 1, 1), "10"), basketStep(nil),
		step{"put", &baskettypes.MsgPut{Owner: a1, BasketDenom: "eco.uC.NCT", Credits: []*baskettypes.BasketCredit{{BatchDenom: "C01-001-20200101-20210101-001", Amount: "5"}}}},
		step{"take", &baskettypes.MsgTake{Owner: a1, BasketDenom: "eco.uC.NCT", Amount: "0100"}},
		step{"take", &baskettypes.MsgTake{Owner: a1, BasketDenom: "eco.uC.NCT", Amount: "0777777"}}))
	write("C18", "", "fixed-F8-zero-fee-rate", baseGen(), with(
		batch(d(2020, 1, 1), d(2021, 1, 1), "10"),
		step{"setFeeParams", &markettypes.MsgGovSetFeeParams{Authority: gov, Fees: &markettypes.FeeParams{BuyerPercentageFee: "0", SellerPercentageFee: "0.0"}}}))
	write("C18", "", "fixed-F9-seller-rate-above-1", baseGen(), with(
		batch(d(2020, 1, 1), d(2021, 1, 1), "10"),
		step{"setFeeParams", &markettypes.MsgGovSetFeeParams{Authority: gov, Fees: &markettypes.FeeParams{BuyerPercentageFee: "0.1", SellerPercentageFee: "2"}}}))
	write("C07", "", "fixed-F9-seller-rate-above-1-overcharge", baseGen(), with(
		batch(d(2020, 1, 1), d(2021, 1, 1), "10"),
		step{"setFeeParams", &markettypes.MsgGovSetFeeParams{Authority: gov, Fees: &markettypes.FeeParams{BuyerPercentageFee: "1.5", SellerPercentageFee: "2"}}},
		step{"sell", &markettypes.MsgSell{Seller: a1, Orders: []*markettypes.MsgSell_Order{{BatchDenom: "C01-001-20200101-20210101-001", Quantity: "1", AskPrice: &sdk.Coin{Denom: "stake", Amount: sdk.OneInt()}, DisableAutoRetire: true}}}},
		step{"buy", &markettypes.MsgBuyDirect{Buyer: a2, Orders: []*markettypes.MsgBuyDirect_Order{{SellOrderId: 1, Quantity: "0.668741", BidPrice: &sdk.Coin{Denom: "stake", Amount: sdk.OneInt()}, DisableAutoRetire: true, MaxFeeAmount: &maxFee}}}}))
	// C15 (pure): the repaired one-byte truncation
	h := make([]byte, 32)
	for i := range h {
		h[i] = byte(i)
	}
	for name, c := range map[string]c15Case{
		"fixed-F5-digest-algorithm-257-vs-1": {Kind: "pair", H1: &data.ContentHash{Graph: &data.ContentHash_Graph{Hash: h, DigestAlgorithm: 1, CanonicalizationAlgorithm: 1}}, H2: &data.ContentHash{Graph: &data.ContentHash_Graph{Hash: h, DigestAlgorithm: 257, CanonicalizationAlgorithm: 1}}},
		"fixed-F5-raw-roundtrip-256":         {Kind: "hash", H1: &data.ContentHash{Raw: &data.ContentHash_Raw{Hash: h, DigestAlgorithm: 256, FileExtension: "pdf"}}},
		"fixed-F14-non-ascii-iri":            {Kind: "string", S: "regen:€.rdf"},
		"fixed-F14-invalid-utf8-iri":         {Kind: "string", S: "regen:\x8b."},
		"fixed-F5-merkle-tree-256":           {Kind: "hash", H1: &data.ContentHash{Graph: &data.ContentHash_Graph{Hash: h, DigestAlgorithm: 1, CanonicalizationAlgorithm: 1, MerkleTree: 256}}},
	} {
		_ = os.MkdirAll(filepath.Join(eng.Root(), "witness", "C15"), 0o755)
		bz, _ := json.MarshalIndent(c, "", " ")
		if err := os.WriteFile(filepath.Join(eng.Root(), "witness", "C15", name+".json"), bz, 0o644); err != nil {
			t.Fatal(err)
		}
	}
	// genesis-level configurations
	zg := baseGen()
	zg.Eco = patchDefaultGenesis(t, map[string]interface{}{
		"regen.ecocredit.v1.ClassFee":         map[string]interface{}{"fee": map[string]string{"denom": "stake", "amount": "0"}},
		"regen.ecocredit.basket.v1.BasketFee": map[string]interface{}{"fee": map[string]string{"denom": "stake", "amount": "0"}},
	})
	write("C18", "", "fixed-F10-zero-creation-fees-in-genesis", zg, nil)
	fg := baseGen()
	fg.Eco = patchDefaultGenesis(t, map[string]interface{}{
		"regen.ecocredit.marketplace.v1.FeeParams": map[string]interface{}{"buyer_percentage_fee": "abc", "seller_percentage_fee": "3"},
	})
	write("C18", "", "fixed-F11-unvalidated-genesis-fee-params", fg, nil)
}

func patchDefaultGenesis(t *testing.T, over map[string]interface{}) json.RawMessage {
	c := eng.TemplateChain()
	var doc map[string]json.RawMessage
	if err := json.Unmarshal(c.Eco.DefaultGenesis(c.Cdc), &doc); err != nil {
		t.Fatal(err)
	}
	for k, v := range over {
		bz, _ := json.Marshal(v)
		doc[k] = bz
	}
	bz, _ := json.Marshal(doc)
	return bz
}
