package harness

import (
	"os"
	"testing"

	"verif/eng"
)

func TestMain(m *testing.M) {
	code := m.Run()
	eng.G.Flush()
	os.Exit(code)
}
