package harness

import (
	"strings"
	"testing"
	"time"

	"pgregory.net/rapid"

	"github.com/regen-network/regen-ledger/x/ecocredit/v3/base"
	"github.com/regen-network/regen-ledger/x/ecocredit/v3/basket"

	"verif/mon"
)

// checkValidators: the repo validators accept exactly the independently written regex language.
func checkValidators(s string) error {
	type pair struct {
		name string
		re   bool
		err  error
	}
	for _, p := range []pair{
		{"ValidateClassID", mon.ReClassID.MatchString(s), base.ValidateClassID(s)},
		{"ValidateProjectID", mon.ReProjectID.MatchString(s), base.ValidateProjectID(s)},
		{"ValidateBatchDenom", mon.ReBatchDenom.MatchString(s), base.ValidateBatchDenom(s)},
		{"ValidateBasketName", mon.ReBasketName.MatchString(s), basket.ValidateBasketName(s)},
	} {
		if p.re != (p.err == nil) {
			return &strErr{p.name + ": documented format match = " + boolS(p.re) + " but validator says " + errS(p.err) + " for " + quote(s)}
		}
	}
	// parsers on accepted ids recover the embedded ids
	if mon.ReProjectID.MatchString(s) {
		cid := base.GetClassIDFromProjectID(s)
		if !strings.HasPrefix(s, cid+"-") || !mon.ReClassID.MatchString(cid) {
			return &strErr{"GetClassIDFromProjectID(" + quote(s) + ") = " + quote(cid)}
		}
	}
	if mon.ReBatchDenom.MatchString(s) {
		cid, pid := base.GetClassIDFromBatchDenom(s), base.GetProjectIDFromBatchDenom(s)
		if !mon.ReClassID.MatchString(cid) || !mon.ReProjectID.MatchString(pid) || !strings.HasPrefix(pid, cid+"-") || !strings.HasPrefix(s, pid+"-") {
			return &strErr{"parsers on " + quote(s) + " give class " + quote(cid) + " project " + quote(pid)}
		}
	}
	if mon.ReClassID.MatchString(s) {
		ab := base.GetCreditTypeAbbrevFromClassID(s)
		if !strings.HasPrefix(s, ab) || base.ValidateCreditTypeAbbreviation(ab) != nil || strings.TrimLeft(s[len(ab):], "0123456789") != "" {
			return &strErr{"GetCreditTypeAbbrevFromClassID(" + quote(s) + ") = " + quote(ab)}
		}
	}
	return nil
}

type strErr struct{ s string }

func (e *strErr) Error() string { return e.s }
func boolS(b bool) string {
	if b {
		return "true"
	}
	return "false"
}
func errS(e error) string {
	if e == nil {
		return "valid"
	}
	return "invalid (" + e.Error() + ")"
}
func quote(s string) string { return "\"" + s + "\"" }

func genIDLike(t *rapid.T) string {
	switch rapid.IntRange(0, 5).Draw(t, "idmode") {
	case 0:
		return rapid.StringMatching(`[A-Z]{1,3}[0-9]{2,5}`).Draw(t, "class")
	case 1:
		return rapid.StringMatching(`[A-Z]{1,3}[0-9]{2,4}-[0-9]{3,5}`).Draw(t, "project")
	case 2:
		return rapid.StringMatching(`[A-Z]{1,3}[0-9]{2,3}-[0-9]{3,4}-[0-9]{8}-[0-9]{8}-[0-9]{3,5}`).Draw(t, "batch")
	case 3:
		return rapid.StringMatching(`[A-Za-z0-9\-]{0,12}`).Draw(t, "near")
	case 4:
		// a valid id with one mutation
		s := rapid.StringMatching(`[A-Z]{1,3}[0-9]{2,3}-[0-9]{3,4}(-[0-9]{8}-[0-9]{8}-[0-9]{3,4})?`).Draw(t, "valid")
		b := []byte(s)
		i := rapid.IntRange(0, len(b)-1).Draw(t, "i")
		switch rapid.IntRange(0, 3).Draw(t, "mut") {
		case 0:
			b[i] = rapid.SampledFrom([]byte("aZ09-_ \n٣")).Draw(t, "c")
		case 1:
			b = append(b[:i], b[i+1:]...)
		case 2:
			b = append(b[:i], append([]byte{rapid.SampledFrom([]byte("A0-")).Draw(t, "ins")}, b[i:]...)...)
		default:
			b = append(b, '\n')
		}
		return string(b)
	}
	return rapid.String().Draw(t, "any")
}

func TestC14Pure(t *testing.T) {
	rapid.Check(t, func(t *rapid.T) {
		if rapid.Bool().Draw(t, "roundtrip") {
			abbrev := rapid.StringMatching(`[A-Z]{1,3}`).Draw(t, "abbrev")
			seqs := []uint64{1, 9, 10, 99, 100, 999, 1000, 1<<64 - 1}
			cs := rapid.SampledFrom(seqs).Draw(t, "cseq")
			if rapid.Bool().Draw(t, "anyseq") {
				cs = rapid.Uint64Min(1).Draw(t, "cseq2")
			}
			ps := rapid.Uint64Min(1).Draw(t, "pseq")
			bs := rapid.Uint64Min(1).Draw(t, "bseq")
			start := time.Unix(rapid.Int64Range(-62135596800, 253402300799).Draw(t, "start"), 0).UTC()
			end := time.Unix(rapid.Int64Range(-62135596800, 253402300799).Draw(t, "end"), 0).UTC()
			cid := base.FormatClassID(abbrev, cs)
			pid := base.FormatProjectID(cid, ps)
			den, err := base.FormatBatchDenom(pid, bs, &start, &end)
			if err != nil {
				t.Fatalf("PROPERTY-FAIL C14: FormatBatchDenom: %v", err)
			}
			if cid != mon.RefClassID(abbrev, cs) || pid != mon.RefProjectID(cid, ps) || den != mon.RefBatchDenom(pid, bs, start, end) {
				t.Fatalf("PROPERTY-FAIL C14: formatters give %q %q %q, documented format gives %q %q %q", cid, pid, den, mon.RefClassID(abbrev, cs), mon.RefProjectID(cid, ps), mon.RefBatchDenom(pid, bs, start, end))
			}
			for _, s := range []string{cid, pid, den} {
				if err := checkValidators(s); err != nil {
					t.Fatalf("PROPERTY-FAIL C14: %v", err)
				}
			}
			if base.ValidateClassID(cid) != nil || base.ValidateProjectID(pid) != nil || base.ValidateBatchDenom(den) != nil {
				t.Fatalf("PROPERTY-FAIL C14: a formatted id is rejected by its validator: %q %q %q", cid, pid, den)
			}
			if base.GetClassIDFromProjectID(pid) != cid || base.GetClassIDFromBatchDenom(den) != cid || base.GetProjectIDFromBatchDenom(den) != pid || base.GetCreditTypeAbbrevFromClassID(cid) != abbrev {
				t.Fatalf("PROPERTY-FAIL C14: parsers do not invert the formatters for %q %q %q", cid, pid, den)
			}
			recordPure("C14", cs > 99 || ps > 999 || bs > 999, den, map[string]interface{}{"class": cid, "project": pid, "batch": den})
			return
		}
		s := genIDLike(t)
		if err := checkValidators(s); err != nil {
			t.Fatalf("PROPERTY-FAIL C14: %v", err)
		}
		recordPure("C14", mon.ReClassID.MatchString(s) || mon.ReProjectID.MatchString(s) || mon.ReBatchDenom.MatchString(s), "s|"+s, map[string]string{"string": s})
	})
}

func FuzzC14Validators(f *testing.F) {
	for _, s := range []string{"C01", "C01-001", "C01-001-20200101-20210101-001", "BIO100-1000-00010101-99991231-1000", "C1", "c01", "C01-001\n", "NCT", "eco.uC.NCT"} {
		f.Add(s)
	}
	f.Fuzz(func(t *testing.T, s string) {
		if err := checkValidators(s); err != nil {
			t.Fatalf("PROPERTY-FAIL C14: %v", err)
		}
	})
}
