// Package chain is a minimal deterministic chain around the REAL regen-ledger
// modules (x/ecocredit, x/data), the real SDK auth and bank keepers and the
// real rootmulti/IAVL store. Only the block lifecycle (begin block, per-message
// cache branch, commit, restart) is harness code; it follows baseapp's
// runTx/runMsgs contract.
package chain

import (
	"encoding/json"
	"fmt"
	"sort"
	"sync"
	"time"

	dbm "github.com/cometbft/cometbft-db"
	abci "github.com/cometbft/cometbft/abci/types"
	"github.com/cometbft/cometbft/libs/log"
	tmproto "github.com/cometbft/cometbft/proto/tendermint/types"

	"github.com/cosmos/cosmos-sdk/baseapp"
	"github.com/cosmos/cosmos-sdk/codec"
	codectypes "github.com/cosmos/cosmos-sdk/codec/types"
	cryptocodec "github.com/cosmos/cosmos-sdk/crypto/codec"
	"github.com/cosmos/cosmos-sdk/store"
	storetypes "github.com/cosmos/cosmos-sdk/store/types"
	sdk "github.com/cosmos/cosmos-sdk/types"
	sdkmodule "github.com/cosmos/cosmos-sdk/types/module"
	authkeeper "github.com/cosmos/cosmos-sdk/x/auth/keeper"
	authtypes "github.com/cosmos/cosmos-sdk/x/auth/types"
	vestingtypes "github.com/cosmos/cosmos-sdk/x/auth/vesting/types"
	bankkeeper "github.com/cosmos/cosmos-sdk/x/bank/keeper"
	banktypes "github.com/cosmos/cosmos-sdk/x/bank/types"
	govtypes "github.com/cosmos/cosmos-sdk/x/gov/types"
	minttypes "github.com/cosmos/cosmos-sdk/x/mint/types"
	paramstypes "github.com/cosmos/cosmos-sdk/x/params/types"
	gogoproto "github.com/cosmos/gogoproto/proto"

	"github.com/regen-network/regen-ledger/x/data/v3"
	datamodule "github.com/regen-network/regen-ledger/x/data/v3/module"
	dataserver "github.com/regen-network/regen-ledger/x/data/v3/server"
	"github.com/regen-network/regen-ledger/x/data/v3/server/hasher"
	"github.com/regen-network/regen-ledger/x/ecocredit/v3"
	"github.com/regen-network/regen-ledger/x/ecocredit/v3/basket"
	"github.com/regen-network/regen-ledger/x/ecocredit/v3/marketplace"
	ecomodule "github.com/regen-network/regen-ledger/x/ecocredit/v3/module"
)

func init() {
	cfg := sdk.GetConfig()
	cfg.SetBech32PrefixForAccount("regen", "regenpub")
}

// MaccPerms is copied from app/app.go (the ecocredit-relevant subset plus the
// sdk accounts whose addresses are blocked recipients).
var MaccPerms = map[string][]string{
	authtypes.FeeCollectorName: nil,
	"distribution":             nil,
	minttypes.ModuleName:       {authtypes.Minter},
	"bonded_tokens_pool":       {authtypes.Burner, authtypes.Staking},
	"not_bonded_tokens_pool":   {authtypes.Burner, authtypes.Staking},
	govtypes.ModuleName:        {authtypes.Burner},
	"transfer":                 {authtypes.Minter, authtypes.Burner},
	ecocredit.ModuleName:       {authtypes.Burner},
	basket.BasketSubModuleName: {authtypes.Burner, authtypes.Minter},
	marketplace.FeePoolName:    {authtypes.Burner},
	"interchainaccounts":       nil,
	"feeibc":                   nil,
	"wasm":                     {authtypes.Burner},
}

// Authority is the governance module address, as in app/app.go.
func Authority() sdk.AccAddress { return authtypes.NewModuleAddress(govtypes.ModuleName) }

func EcoModuleAddr() sdk.AccAddress    { return authtypes.NewModuleAddress(ecocredit.ModuleName) }
func BasketModuleAddr() sdk.AccAddress { return authtypes.NewModuleAddress(basket.BasketSubModuleName) }
func FeePoolAddr() sdk.AccAddress      { return authtypes.NewModuleAddress(marketplace.FeePoolName) }

func blockedAddrs() map[string]bool {
	m := map[string]bool{}
	for acc := range MaccPerms {
		m[authtypes.NewModuleAddress(acc).String()] = true
	}
	delete(m, Authority().String())
	return m
}

// IsBlocked reports whether addr is a blocked bank recipient.
func IsBlocked(addr string) bool { return blockedAddrs()[addr] }

// Options configure a chain.
type Options struct {
	// DataHasher, when non-nil, replaces the production IRI hasher of the data
	// module through the verif build-tag hook (C16).
	DataHasher hasher.Hasher
	// GasLimit per message (0 = default 50M).
	GasLimit uint64
	// ChainID of every block header ("" = "verif-1").
	ChainID string
}

type namedInvariant struct {
	Module, Route string
	Inv           sdk.Invariant
}

// Chain holds every application object. All of them are rebuilt by Restart.
type Chain struct {
	Opts Options
	DB   dbm.DB

	CMS     storetypes.CommitMultiStore
	AuthKey *storetypes.KVStoreKey
	BankKey *storetypes.KVStoreKey
	ParKey  *storetypes.KVStoreKey
	EcoKey  *storetypes.KVStoreKey
	DataKey *storetypes.KVStoreKey
	TKey    *storetypes.TransientStoreKey

	Registry codectypes.InterfaceRegistry
	Cdc      *codec.ProtoCodec
	AK       authkeeper.AccountKeeper
	BK       bankkeeper.BaseKeeper
	Eco      *ecomodule.Module
	Data     *datamodule.Module
	dataGen  dataserver.Keeper

	MsgRouter   *baseapp.MsgServiceRouter
	QueryRouter *baseapp.GRPCQueryRouter
	invariants  []namedInvariant

	Height int64
	Time   time.Time

	// mu orders BeginBlock / Commit (write side) against concurrent Simulate calls (read side), as a node's
	// gas-estimation endpoint runs handlers on other goroutines while a block executes
	mu       sync.RWMutex
	block    storetypes.CacheMultiStore // block-level branch (nil outside a block)
	inBlock  bool
	LastHash []byte
}

type invReg struct{ c *Chain }

func (r invReg) RegisterRoute(moduleName, route string, invar sdk.Invariant) {
	r.c.invariants = append(r.c.invariants, namedInvariant{moduleName, route, invar})
}

// New builds all application objects over db and loads the latest version.
func New(db dbm.DB, opts Options) *Chain {
	c := &Chain{Opts: opts, DB: db}
	if c.Opts.GasLimit == 0 {
		c.Opts.GasLimit = 50_000_000
	}
	c.AuthKey = sdk.NewKVStoreKey(authtypes.StoreKey)
	c.BankKey = sdk.NewKVStoreKey(banktypes.StoreKey)
	c.ParKey = sdk.NewKVStoreKey(paramstypes.StoreKey)
	c.EcoKey = sdk.NewKVStoreKey(ecocredit.ModuleName)
	c.DataKey = sdk.NewKVStoreKey(data.ModuleName)
	c.TKey = sdk.NewTransientStoreKey(paramstypes.TStoreKey)

	c.CMS = store.NewCommitMultiStore(db)
	// IAVL's fast-node index iterates with database iterators; a MemDB iterator holds the database's read lock
	// until it is closed, and a handler that panics (out of gas) in the middle of an iteration never closes it:
	// the next commit would wait forever. Without the index, iteration walks tree nodes with plain reads. The
	// index does not take part in the app hash.
	c.CMS.SetIAVLDisableFastNode(true)
	for _, k := range []*storetypes.KVStoreKey{c.AuthKey, c.BankKey, c.ParKey, c.EcoKey, c.DataKey} {
		c.CMS.MountStoreWithDB(k, storetypes.StoreTypeIAVL, nil)
	}
	c.CMS.MountStoreWithDB(c.TKey, storetypes.StoreTypeTransient, nil)

	c.Registry = codectypes.NewInterfaceRegistry()
	c.Cdc = codec.NewProtoCodec(c.Registry)
	amino := codec.NewLegacyAmino()
	cryptocodec.RegisterInterfaces(c.Registry)
	authtypes.RegisterInterfaces(c.Registry)
	banktypes.RegisterInterfaces(c.Registry)
	vestingtypes.RegisterInterfaces(c.Registry)

	authority := Authority()
	c.AK = authkeeper.NewAccountKeeper(c.Cdc, c.AuthKey, authtypes.ProtoBaseAccount, MaccPerms, "regen", authority.String())
	c.BK = bankkeeper.NewBaseKeeper(c.Cdc, c.BankKey, c.AK, blockedAddrs(), authority.String())

	sub := paramstypes.NewSubspace(c.Cdc, amino, c.ParKey, c.TKey, ecocredit.ModuleName)
	c.Eco = ecomodule.NewModule(c.EcoKey, authority, c.AK, c.BK, sub, nil)
	c.Eco.RegisterInterfaces(c.Registry)
	c.Data = datamodule.NewModule(c.DataKey, c.AK, c.BK)
	c.Data.RegisterInterfaces(c.Registry)

	c.MsgRouter = baseapp.NewMsgServiceRouter()
	c.MsgRouter.SetInterfaceRegistry(c.Registry)
	c.QueryRouter = baseapp.NewGRPCQueryRouter()
	c.QueryRouter.SetInterfaceRegistry(c.Registry)
	cfg := sdkmodule.NewConfigurator(c.Cdc, c.MsgRouter, c.QueryRouter)
	c.Eco.RegisterServices(cfg)
	if c.Opts.DataHasher != nil {
		impl := dataserver.NewServerWithHasher(c.DataKey, c.AK, c.BK, c.Opts.DataHasher)
		data.RegisterMsgServer(cfg.MsgServer(), impl)
		data.RegisterQueryServer(cfg.QueryServer(), impl)
		c.dataGen = impl
	} else {
		c.Data.RegisterServices(cfg)
	}
	banktypes.RegisterMsgServer(cfg.MsgServer(), bankkeeper.NewMsgServerImpl(c.BK))
	banktypes.RegisterQueryServer(cfg.QueryServer(), c.BK)

	c.Eco.RegisterInvariants(invReg{c})
	c.Data.RegisterInvariants(invReg{c})

	if err := c.CMS.LoadLatestVersion(); err != nil {
		panic(err)
	}
	id := c.CMS.LastCommitID()
	c.Height = id.Version
	c.LastHash = id.Hash
	return c
}

// Restart drops every Go object and rebuilds them over the same database.
// The block time is not part of committed state in this harness, so it is
// carried over explicitly (a real node reads it from the block header).
func (c *Chain) Restart() *Chain {
	if c.inBlock {
		panic("restart inside a block")
	}
	n := New(c.DB, c.Opts)
	n.Time = c.Time
	return n
}

func (c *Chain) header() tmproto.Header {
	id := c.Opts.ChainID
	if id == "" {
		id = "verif-1"
	}
	return tmproto.Header{ChainID: id, Height: c.Height, Time: c.Time}
}

func (c *Chain) newCtx(ms storetypes.MultiStore) sdk.Context {
	return sdk.NewContext(ms, c.header(), false, log.NewNopLogger()).
		WithGasMeter(sdk.NewInfiniteGasMeter()).
		WithEventManager(sdk.NewEventManager())
}

// Genesis is what InitGenesis consumes.
type Genesis struct {
	Time          time.Time
	Eco           json.RawMessage // nil = module default
	Data          json.RawMessage // nil = module default
	Auth          json.RawMessage // nil = default
	Bank          json.RawMessage // nil = default + Balances
	Balances      []Balance       // minted through the mint module account
	InitialHeight int64           // height of the genesis commit (a chain restarted from an export starts in the millions); 0 = 1
	Locked        []Balance       // accounts turned into permanently locked vesting accounts (part of their balance unspendable)
}

type Balance struct {
	Addr  sdk.AccAddress
	Coins sdk.Coins
}

// InitGenesis initialises auth, bank, ecocredit and data and commits version 1.
// It returns an error if a module's InitGenesis panics.
func (c *Chain) InitGenesis(g Genesis) (err error) {
	defer func() {
		if r := recover(); r != nil {
			err = fmt.Errorf("init genesis panic: %v", r)
		}
	}()
	c.Time = g.Time
	c.Height = 0
	branch := c.CMS.CacheMultiStore()
	ctx := c.newCtx(branch)
	if g.Auth != nil {
		var gs authtypes.GenesisState
		c.Cdc.MustUnmarshalJSON(g.Auth, &gs)
		c.AK.InitGenesis(ctx, gs)
	} else {
		c.AK.InitGenesis(ctx, *authtypes.DefaultGenesisState())
	}
	if g.Bank != nil {
		var gs banktypes.GenesisState
		c.Cdc.MustUnmarshalJSON(g.Bank, &gs)
		c.BK.InitGenesis(ctx, &gs)
	} else {
		c.BK.InitGenesis(ctx, banktypes.DefaultGenesisState())
	}
	for _, b := range g.Balances {
		if err := c.BK.MintCoins(ctx, minttypes.ModuleName, b.Coins); err != nil {
			return err
		}
		if b.Addr.Equals(FeePoolAddr()) {
			// the fee pool is a module account (a blocked recipient for account transfers): a balance it holds at
			// genesis arrives module to module
			if err := c.BK.SendCoinsFromModuleToModule(ctx, minttypes.ModuleName, marketplace.FeePoolName, b.Coins); err != nil {
				return err
			}
			continue
		}
		if err := c.BK.SendCoinsFromModuleToAccount(ctx, minttypes.ModuleName, b.Addr, b.Coins); err != nil {
			return err
		}
	}
	for _, l := range g.Locked {
		ba, ok := c.AK.GetAccount(ctx, l.Addr).(*authtypes.BaseAccount)
		if !ok {
			return fmt.Errorf("locked account %s is not a base account", l.Addr)
		}
		c.AK.SetAccount(ctx, vestingtypes.NewPermanentLockedAccount(ba, l.Coins))
	}
	eco := g.Eco
	if eco == nil {
		eco = c.Eco.DefaultGenesis(c.Cdc)
	}
	c.Eco.InitGenesis(ctx, c.Cdc, eco)
	dat := g.Data
	if dat == nil {
		dat = c.Data.DefaultGenesis(c.Cdc)
	}
	if c.dataGen != nil {
		if _, err := c.dataGen.InitGenesis(ctx, c.Cdc, dat); err != nil {
			return err
		}
	} else {
		c.Data.InitGenesis(ctx, c.Cdc, dat)
	}
	branch.Write()
	if g.InitialHeight > 1 {
		if err := c.CMS.SetInitialVersion(g.InitialHeight); err != nil {
			return err
		}
	}
	id := c.CMS.Commit()
	c.Height = id.Version
	c.LastHash = id.Hash
	return nil
}

// ExportData exports the data module genesis from ctx.
func (c *Chain) ExportData(ctx sdk.Context) (out json.RawMessage, err error) {
	defer func() {
		if r := recover(); r != nil {
			err = fmt.Errorf("export panic: %v", r)
		}
	}()
	if c.dataGen != nil {
		return c.dataGen.ExportGenesis(ctx, c.Cdc)
	}
	return c.Data.ExportGenesis(ctx, c.Cdc), nil
}

// ExportEco exports the ecocredit module genesis from ctx.
func (c *Chain) ExportEco(ctx sdk.Context) (out json.RawMessage, err error) {
	defer func() {
		if r := recover(); r != nil {
			err = fmt.Errorf("export panic: %v", r)
		}
	}()
	return c.Eco.ExportGenesis(ctx, c.Cdc), nil
}

// BeginBlock opens block height+1 at time t and runs the module begin blockers.
// A panic in a begin blocker is returned (the block branch is kept open so the
// caller can inspect, but nothing written by the panicking begin blocker is
// kept).
func (c *Chain) BeginBlock(t time.Time) (panicked interface{}) {
	if c.inBlock {
		panic("BeginBlock inside a block")
	}
	c.mu.Lock()
	c.Height++
	c.Time = t
	c.block = c.CMS.CacheMultiStore()
	c.inBlock = true
	c.mu.Unlock()
	bb := c.block.CacheMultiStore()
	ctx := c.newCtx(bb)
	func() {
		defer func() {
			if r := recover(); r != nil {
				panicked = r
			}
		}()
		c.Eco.BeginBlock(ctx, abci.RequestBeginBlock{Header: c.header()})
	}()
	if panicked == nil {
		bb.Write()
	}
	return panicked
}

// Result of one delivered message.
type Result struct {
	OK       bool
	Err      error       // ValidateBasic or handler error
	Panic    interface{} // recovered handler panic (counts as failure)
	Stage    string      // "basic", "route", "handler", ""
	Resp     []byte      // marshalled response (sdk.Result.Data / MsgResponses)
	RespMsg  gogoproto.Message
	Events   []abci.Event
	GasUsed  uint64
	OutOfGas bool
}

// Deliver runs ValidateBasic and the routed handler on a per-message cache
// branch, written only on success.
func (c *Chain) Deliver(msg sdk.Msg) (res Result) { return c.DeliverGas(msg, c.Opts.GasLimit) }

// DeliverGas is Deliver with an explicit gas limit for this message.
func (c *Chain) DeliverGas(msg sdk.Msg, gasLimit uint64) (res Result) {
	if !c.inBlock {
		panic("Deliver outside a block")
	}
	if err := safeValidateBasic(msg); err != nil {
		return Result{Err: err, Stage: "basic"}
	}
	h := c.MsgRouter.Handler(msg)
	if h == nil {
		return Result{Err: fmt.Errorf("no route for %s", sdk.MsgTypeURL(msg)), Stage: "route"}
	}
	branch := c.block.CacheMultiStore()
	gm := sdk.NewGasMeter(gasLimit)
	ctx := sdk.NewContext(branch, c.header(), false, log.NewNopLogger()).
		WithGasMeter(gm).WithEventManager(sdk.NewEventManager())
	var sres *sdk.Result
	var err error
	func() {
		defer func() {
			if r := recover(); r != nil {
				res.Panic = r
				if _, ok := r.(storetypes.ErrorOutOfGas); ok {
					res.OutOfGas = true
				}
			}
		}()
		sres, err = h(ctx, msg)
	}()
	res.GasUsed = gm.GasConsumed()
	res.Stage = "handler"
	if res.Panic != nil {
		res.Err = fmt.Errorf("panic: %v", res.Panic)
		return res
	}
	if err != nil {
		res.Err = err
		return res
	}
	branch.Write()
	res.OK = true
	res.Stage = ""
	if sres != nil {
		res.Events = sres.Events
		if len(sres.MsgResponses) > 0 {
			res.Resp = sres.MsgResponses[0].Value
			if m, ok := sres.MsgResponses[0].GetCachedValue().(gogoproto.Message); ok {
				res.RespMsg = m
			}
		} else {
			res.Resp = sres.Data
		}
	}
	return res
}

// Simulate runs msg on a throw-away branch of the last COMMITTED state, from any goroutine, the way a
// node's Simulate endpoint does while a block is being executed. Nothing is written; the outcome is ignored.
func (c *Chain) Simulate(msg sdk.Msg) {
	c.mu.RLock()
	defer c.mu.RUnlock()
	if safeValidateBasic(msg) != nil {
		return
	}
	h := c.MsgRouter.Handler(msg)
	if h == nil {
		return
	}
	ctx := sdk.NewContext(c.CMS.CacheMultiStore(), c.header(), false, log.NewNopLogger()).
		WithGasMeter(sdk.NewGasMeter(c.Opts.GasLimit)).WithEventManager(sdk.NewEventManager())
	defer func() { _ = recover() }()
	_, _ = h(ctx, msg)
}

func safeValidateBasic(msg sdk.Msg) (err error) {
	defer func() {
		if r := recover(); r != nil {
			err = fmt.Errorf("ValidateBasic panic: %v", r)
		}
	}()
	return msg.ValidateBasic()
}

// Commit writes the block branch and commits; returns the app hash.
func (c *Chain) Commit() []byte {
	if !c.inBlock {
		panic("Commit outside a block")
	}
	c.mu.Lock()
	c.block.Write()
	c.block = nil
	c.inBlock = false
	id := c.CMS.Commit()
	c.mu.Unlock()
	if id.Version != c.Height {
		panic(fmt.Sprintf("height mismatch: store %d chain %d", id.Version, c.Height))
	}
	c.LastHash = id.Hash
	return id.Hash
}

// Sandbox runs f on a throw-away branch of the open block: everything
// delivered inside (messages, faucet) is discarded afterwards.
func (c *Chain) Sandbox(f func()) {
	if !c.inBlock {
		panic("Sandbox outside a block")
	}
	saved := c.block
	c.block = saved.CacheMultiStore()
	defer func() { c.block = saved }()
	f()
}

// InBlock reports whether a block is open.
func (c *Chain) InBlock() bool { return c.inBlock }

// ReadCtx returns a context over a throw-away branch of the current state
// (block branch if a block is open) with an infinite gas meter. Nothing done
// through it is ever written back.
func (c *Chain) ReadCtx() sdk.Context {
	var ms storetypes.MultiStore
	if c.inBlock {
		ms = c.block.CacheMultiStore()
	} else {
		ms = c.CMS.CacheMultiStore()
	}
	return c.newCtx(ms)
}

// WithSystem runs f on the current block branch (or on committed state when
// no block is open) and writes the result: used for harness-attributed steps
// (faucet), never for user messages.
func (c *Chain) WithSystem(f func(ctx sdk.Context) error) error {
	if !c.inBlock {
		panic("WithSystem outside a block")
	}
	branch := c.block.CacheMultiStore()
	ctx := c.newCtx(branch)
	if err := f(ctx); err != nil {
		return err
	}
	branch.Write()
	return nil
}

// Faucet mints coins to addr (through the mint module account).
func (c *Chain) Faucet(addr sdk.AccAddress, coins sdk.Coins) error {
	return c.WithSystem(func(ctx sdk.Context) error {
		if err := c.BK.MintCoins(ctx, minttypes.ModuleName, coins); err != nil {
			return err
		}
		return c.BK.SendCoinsFromModuleToAccount(ctx, minttypes.ModuleName, addr, coins)
	})
}

// InvariantResult is the outcome of one registered invariant route.
type InvariantResult struct {
	Module, Route, Msg string
	Broken             bool
	Panic              interface{}
	OutOfGas           bool
}

// RunInvariants runs every invariant route registered by the modules.
func (c *Chain) RunInvariants() []InvariantResult { return c.RunInvariantsGas(0) }

// RunInvariantsGas runs the registered invariants under a finite gas meter (0 = infinite), as x/crisis does
// inside a MsgVerifyInvariant transaction. Running out of gas is a panic of the transaction, not a verdict: such a
// result has OutOfGas set and Broken false.
func (c *Chain) RunInvariantsGas(limit uint64) []InvariantResult {
	var out []InvariantResult
	for _, ni := range c.invariants {
		r := InvariantResult{Module: ni.Module, Route: ni.Route}
		func() {
			defer func() {
				if p := recover(); p != nil {
					if _, ok := p.(storetypes.ErrorOutOfGas); ok {
						r.OutOfGas = true
						return
					}
					r.Panic = p
					r.Broken = true
				}
			}()
			ctx := c.ReadCtx()
			if limit > 0 {
				ctx = ctx.WithGasMeter(sdk.NewGasMeter(limit))
			}
			r.Msg, r.Broken = ni.Inv(ctx)
		}()
		out = append(out, r)
	}
	return out
}

// InvariantRoutes lists the registered routes.
func (c *Chain) InvariantRoutes() []string {
	var s []string
	for _, ni := range c.invariants {
		s = append(s, ni.Module+"/"+ni.Route)
	}
	sort.Strings(s)
	return s
}

// Query calls a gRPC query method through the real GRPCQueryRouter.
func (c *Chain) Query(path string, req gogoproto.Message, resp gogoproto.Message) (err error) {
	defer func() {
		if r := recover(); r != nil {
			err = fmt.Errorf("query panic: %v", r)
		}
	}()
	h := c.QueryRouter.Route(path)
	if h == nil {
		return fmt.Errorf("no query route %s", path)
	}
	bz, err := gogoproto.Marshal(req)
	if err != nil {
		return err
	}
	r, err := h(c.ReadCtx(), abci.RequestQuery{Data: bz, Path: path})
	if err != nil {
		return err
	}
	return gogoproto.Unmarshal(r.Value, resp)
}
