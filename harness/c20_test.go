package harness

import (
	"bytes"
	"encoding/json"
	"errors"
	"fmt"
	"os"
	"testing"
	"time"

	errorsmod "cosmossdk.io/errors"
	"github.com/cometbft/cometbft/libs/log"
	tmproto "github.com/cometbft/cometbft/proto/tendermint/types"
	"github.com/cosmos/cosmos-sdk/codec"
	codectypes "github.com/cosmos/cosmos-sdk/codec/types"
	sdk "github.com/cosmos/cosmos-sdk/types"
	sdkerrors "github.com/cosmos/cosmos-sdk/types/errors"
	banktypes "github.com/cosmos/cosmos-sdk/x/bank/types"
	captypes "github.com/cosmos/cosmos-sdk/x/capability/types"
	gogoproto "github.com/cosmos/gogoproto/proto"
	icatypes "github.com/cosmos/ibc-go/v7/modules/apps/27-interchain-accounts/types"
	channeltypes "github.com/cosmos/ibc-go/v7/modules/core/04-channel/types"
	"pgregory.net/rapid"

	"github.com/regen-network/regen-ledger/x/data/v3"
	basetypes "github.com/regen-network/regen-ledger/x/ecocredit/v3/base/types/v1"
	baskettypes "github.com/regen-network/regen-ledger/x/ecocredit/v3/basket/types/v1"
	"github.com/regen-network/regen-ledger/x/intertx/keeper"
	intertxtypes "github.com/regen-network/regen-ledger/x/intertx/types/v1"

	"verif/eng"
)

// ---- recording fakes (no gomock expectations) ----

type sendCall struct {
	Cap              *captypes.Capability
	Conn, Port       string
	Packet           icatypes.InterchainAccountPacketData
	TimeoutTimestamp uint64
}

type fakeICA struct {
	channels      map[string]string // conn|port -> channel id
	channelLookup [][2]string
	sends         []sendCall
	sendErr       error
}

func (f *fakeICA) RegisterInterchainAccount(sdk.Context, string, string, string) error { return nil }
func (f *fakeICA) GetActiveChannelID(_ sdk.Context, conn, port string) (string, bool) {
	f.channelLookup = append(f.channelLookup, [2]string{conn, port})
	ch, ok := f.channels[conn+"|"+port]
	return ch, ok
}
func (f *fakeICA) SendTx(_ sdk.Context, c *captypes.Capability, conn, port string, p icatypes.InterchainAccountPacketData, ts uint64) (uint64, error) {
	f.sends = append(f.sends, sendCall{c, conn, port, p, ts})
	return 1, f.sendErr
}
func (f *fakeICA) GetInterchainAccountAddress(sdk.Context, string, string) (string, bool) {
	return "", false
}

type fakeCap struct {
	caps    map[string]*captypes.Capability
	lookups []string
}

func (f *fakeCap) ClaimCapability(sdk.Context, *captypes.Capability, string) error { return nil }
func (f *fakeCap) GetCapability(_ sdk.Context, name string) (*captypes.Capability, bool) {
	f.lookups = append(f.lookups, name)
	c, ok := f.caps[name]
	return c, ok
}

var c20Codec = func() *codec.ProtoCodec {
	reg := codectypes.NewInterfaceRegistry()
	banktypes.RegisterInterfaces(reg)
	basetypes.RegisterTypes(reg)
	baskettypes.RegisterTypes(reg)
	data.RegisterTypes(reg)
	intertxtypes.RegisterTypes(reg)
	return codec.NewProtoCodec(reg)
}()

type c20Case struct {
	Owner     string `json:"owner"`
	Conn      string `json:"conn"`
	InnerType string `json:"inner_type"`
	InnerBin  []byte `json:"inner_bin"` // protobuf Any bytes of the inner message
	BlockNs   int64  `json:"block_ns"`
	Channel   bool   `json:"channel"`
	Cap       bool   `json:"cap"`
	// other owners that have a registered, usable interchain account on the same connection
	OtherOwners []string `json:"other_owners,omitempty"`
	// injected fault: index into c20SendErrs of the error the ICA controller's SendTx returns (0 = none)
	SendErr int `json:"send_err,omitempty"`
}

// errors a real ICA controller keeper returns from SendTx after SubmitTx's own look-ups succeeded: the
// active channel is no longer OPEN (closed by a timeout on an ordered channel), the capability does not
// authenticate, the packet is rejected, anything else
var c20SendErrs = []error{
	nil,
	icatypes.ErrActiveChannelNotFound,
	errorsmod.Wrapf(icatypes.ErrActiveChannelNotFound, "failed to retrieve active channel on connection %s for port %s", "connection-0", "p"),
	channeltypes.ErrInvalidChannelState,
	errorsmod.Wrap(channeltypes.ErrChannelCapabilityNotFound, "module does not own channel capability"),
	errorsmod.Wrap(channeltypes.ErrInvalidPacket, "packet failed basic validation"),
	icatypes.ErrInvalidTimeoutTimestamp,
	sdkerrors.ErrInvalidRequest,
	errors.New("some other failure"),
	fmt.Errorf("wrapped: %w", icatypes.ErrActiveChannelNotFound),
}

func genAddr(t *rapid.T, label string) string {
	n := rapid.SampledFrom([]int{20, 20, 32}).Draw(t, label+"len")
	return sdk.AccAddress(rapid.SliceOfN(rapid.Byte(), n, n).Draw(t, label)).String()
}

func genInner(t *rapid.T) sdk.Msg {
	txt := func(l string) string { return rapid.StringN(0, 40, 200).Draw(t, l) }
	switch rapid.IntRange(0, 6).Draw(t, "innerkind") {
	case 0:
		amt := sdk.NewIntFromUint64(rapid.Uint64().Draw(t, "amt"))
		return &banktypes.MsgSend{FromAddress: genAddr(t, "from"), ToAddress: genAddr(t, "to"), Amount: sdk.Coins{sdk.NewCoin("uregen", amt), sdk.NewCoin("zzz", amt.AddRaw(1))}}
	case 1:
		n := rapid.IntRange(0, 4).Draw(t, "ncredits")
		var cs []*basetypes.MsgSend_SendCredits
		for i := 0; i < n; i++ {
			cs = append(cs, &basetypes.MsgSend_SendCredits{BatchDenom: txt("denom"), TradableAmount: txt("t"), RetiredAmount: txt("r"), RetirementJurisdiction: txt("j")})
		}
		return &basetypes.MsgSend{Sender: genAddr(t, "s"), Recipient: txt("rcpt"), Credits: cs}
	case 2:
		s, e := time.Unix(rapid.Int64Range(-62135596800, 253402300799).Draw(t, "s"), int64(rapid.IntRange(0, 999999999).Draw(t, "ns"))).UTC(), time.Unix(rapid.Int64Range(0, 4e9).Draw(t, "e"), 0).UTC()
		return &basetypes.MsgCreateBatch{Issuer: genAddr(t, "i"), ProjectId: txt("p"), Metadata: txt("m"), StartDate: &s, EndDate: &e, Open: rapid.Bool().Draw(t, "open"),
			Issuance: []*basetypes.BatchIssuance{{Recipient: txt("r"), TradableAmount: txt("ta")}}, OriginTx: &basetypes.OriginTx{Id: txt("id"), Source: txt("src")}}
	case 3:
		return &data.MsgAnchor{Sender: genAddr(t, "s"), ContentHash: &data.ContentHash{Graph: &data.ContentHash_Graph{Hash: rapid.SliceOfN(rapid.Byte(), 0, 64).Draw(t, "h"), DigestAlgorithm: rapid.Uint32().Draw(t, "da"), CanonicalizationAlgorithm: 1}}}
	case 4:
		return &intertxtypes.MsgRegisterAccount{Owner: genAddr(t, "o"), ConnectionId: txt("c"), Version: txt("v")}
	case 6:
		// a nested MsgSubmitTx naming ANOTHER owner (nobody signed for that owner)
		victim := genAddr(t, "victim")
		in, err := codectypes.NewAnyWithValue(&banktypes.MsgSend{FromAddress: victim, ToAddress: genAddr(t, "thief"), Amount: sdk.Coins{sdk.NewInt64Coin("uregen", 1)}})
		if err != nil {
			return &banktypes.MsgSend{}
		}
		return &intertxtypes.MsgSubmitTx{Owner: victim, ConnectionId: rapid.SampledFrom([]string{"connection-0", "connection-1", "connection-12", "c"}).Draw(t, "nestedconn"), Msg: in}
	case 5:
		return &baskettypes.MsgTake{Owner: genAddr(t, "o"), BasketDenom: txt("b"), Amount: txt("a"), RetireOnTake: rapid.Bool().Draw(t, "rt"), RetirementJurisdiction: txt("j")}
	}
	return &banktypes.MsgSend{}
}

// checkC20 runs a sequence of submissions against ONE keeper instance (state
// kept in the keeper between calls must not leak from one owner to the next).
func checkC20(cs ...c20Case) error {
	ica := &fakeICA{}
	caps := &fakeCap{}
	k := keeper.NewKeeper(c20Codec, ica, caps)
	for i, c := range cs {
		if err := checkC20Step(k, ica, caps, c); err != nil {
			return fmt.Errorf("submission %d of %d: %w", i+1, len(cs), err)
		}
	}
	return nil
}

func checkC20Step(k keeper.Keeper, ica *fakeICA, caps *fakeCap, c c20Case) error {
	var innerAny codectypes.Any
	if err := innerAny.Unmarshal(c.InnerBin); err != nil {
		return fmt.Errorf("harness: bad inner any: %v", err)
	}
	// the outer message as it arrives off the wire: marshal, unmarshal, UnpackInterfaces
	outer := &intertxtypes.MsgSubmitTx{Owner: c.Owner, ConnectionId: c.Conn, Msg: &innerAny}
	outerAny, err := codectypes.NewAnyWithValue(outer)
	if err != nil {
		return fmt.Errorf("harness: %v", err)
	}
	bz, _ := outerAny.Marshal()
	var a2 codectypes.Any
	if err := a2.Unmarshal(bz); err != nil {
		return fmt.Errorf("harness: %v", err)
	}
	var decoded sdk.Msg
	if err := c20Codec.UnpackAny(&a2, &decoded); err != nil {
		return fmt.Errorf("harness: outer message does not decode: %v", err)
	}
	msg := decoded.(*intertxtypes.MsgSubmitTx)
	if msg.ValidateBasic() != nil {
		return nil // outside the domain (the generators produce valid outer messages)
	}
	owner, _ := sdk.AccAddressFromBech32(c.Owner)
	if s := msg.GetSigners(); len(s) != 1 || !s[0].Equals(owner) {
		return fmt.Errorf("GetSigners = %v, want only the owner %s", s, c.Owner)
	}
	port := "icacontroller-" + c.Owner
	channel := "channel-7"
	ica.channels, ica.channelLookup, ica.sends = map[string]string{}, nil, nil
	caps.caps, caps.lookups = map[string]*captypes.Capability{}, nil
	theCap := captypes.NewCapability(42)
	if c.Channel {
		ica.channels[c.Conn+"|"+port] = channel
	}
	// decoys: another owner's port on the same connection, the owner's port on another connection
	ica.channels[c.Conn+"x|"+port] = "channel-99"
	ica.channels[c.Conn+"|"+port+"x"] = "channel-98"
	capPath := "capabilities/ports/" + port + "/channels/" + channel
	if c.Cap {
		caps.caps[capPath] = theCap
	}
	for i, o := range c.OtherOwners {
		op := "icacontroller-" + o
		if op == port {
			continue
		}
		ch := fmt.Sprintf("channel-%d", 20+i)
		ica.channels[c.Conn+"|"+op] = ch
		caps.caps["capabilities/ports/"+op+"/channels/"+ch] = captypes.NewCapability(uint64(200 + i))
	}
	caps.caps["capabilities/ports/"+port+"x/channels/channel-98"] = captypes.NewCapability(98)
	caps.caps["capabilities/ports/"+port+"/channels/channel-99"] = captypes.NewCapability(99)
	bt := time.Unix(0, c.BlockNs).UTC()
	ctx := sdk.NewContext(nil, tmproto.Header{Time: bt, Height: 5}, false, log.NewNopLogger())
	ica.sendErr = nil
	if c.SendErr > 0 && c.SendErr < len(c20SendErrs) {
		ica.sendErr = c20SendErrs[c.SendErr]
	}
	_, err = k.SubmitTx(sdk.WrapSDKContext(ctx), msg)

	if len(ica.channelLookup) != 1 || ica.channelLookup[0] != [2]string{c.Conn, port} {
		return fmt.Errorf("channel lookups %v, want exactly one for (%q, %q)", ica.channelLookup, c.Conn, port)
	}
	if !c.Channel || !c.Cap {
		if err == nil {
			return fmt.Errorf("SubmitTx succeeded without channel=%v capability=%v", c.Channel, c.Cap)
		}
		if len(ica.sends) != 0 {
			return fmt.Errorf("SendTx was called %d times although channel=%v capability=%v", len(ica.sends), c.Channel, c.Cap)
		}
		if c.Channel && (len(caps.lookups) != 1 || caps.lookups[0] != capPath) {
			return fmt.Errorf("capability lookups %v, want exactly %q", caps.lookups, capPath)
		}
		return nil
	}
	if ica.sendErr != nil {
		// the controller refused the packet: nothing was sent, SubmitTx must not report success
		if err == nil {
			return fmt.Errorf("SubmitTx reported success although SendTx failed with %q: nothing was sent", ica.sendErr)
		}
		return nil
	}
	if err != nil {
		return fmt.Errorf("SubmitTx failed although channel and capability exist: %v", err)
	}
	if len(caps.lookups) != 1 || caps.lookups[0] != capPath {
		return fmt.Errorf("capability lookups %v, want exactly %q", caps.lookups, capPath)
	}
	if len(ica.sends) != 1 {
		return fmt.Errorf("SendTx called %d times, want once", len(ica.sends))
	}
	s := ica.sends[0]
	if s.Cap != theCap || s.Conn != c.Conn || s.Port != port {
		return fmt.Errorf("SendTx(cap=%v conn=%q port=%q), want cap=%v conn=%q port=%q", s.Cap, s.Conn, s.Port, theCap, c.Conn, port)
	}
	if s.Packet.Type != icatypes.EXECUTE_TX || s.Packet.Memo != "" {
		return fmt.Errorf("packet type %v memo %q, want EXECUTE_TX and empty memo", s.Packet.Type, s.Packet.Memo)
	}
	want := uint64(bt.UnixNano() + int64(time.Minute))
	if s.TimeoutTimestamp != want {
		return fmt.Errorf("timeout %d, want block time + 60 s = %d", s.TimeoutTimestamp, want)
	}
	msgs, derr := icatypes.DeserializeCosmosTx(c20Codec, s.Packet.Data)
	if derr != nil {
		return fmt.Errorf("packet data does not decode: %v", derr)
	}
	if len(msgs) != 1 {
		return fmt.Errorf("packet carries %d messages, want exactly 1", len(msgs))
	}
	gotAny, err := codectypes.NewAnyWithValue(msgs[0])
	if err != nil {
		return fmt.Errorf("harness: %v", err)
	}
	// the inner message, decoded independently from the original bytes
	var orig sdk.Msg
	var oa codectypes.Any
	_ = oa.Unmarshal(c.InnerBin)
	if err := c20Codec.UnpackAny(&oa, &orig); err != nil {
		return fmt.Errorf("harness: %v", err)
	}
	origBz, _ := gogoproto.Marshal(orig)
	if gotAny.TypeUrl != innerAny.TypeUrl || !bytes.Equal(gotAny.Value, origBz) {
		return fmt.Errorf("forwarded message %s %x differs from the supplied message %s %x", gotAny.TypeUrl, gotAny.Value, innerAny.TypeUrl, origBz)
	}
	return nil
}

func TestC20(t *testing.T) {
	rapid.Check(t, func(t *rapid.T) {
		inner := genInner(t)
		any, err := codectypes.NewAnyWithValue(inner)
		if err != nil {
			t.Skip("unencodable inner message")
		}
		bin, err := any.Marshal()
		if err != nil {
			t.Skip("unencodable inner message")
		}
		c := c20Case{
			Owner: genAddr(t, "owner"), Conn: rapid.SampledFrom([]string{"connection-0", "connection-1", "connection-12", "c", "connection-0|x"}).Draw(t, "conn"),
			InnerType: any.TypeUrl, InnerBin: bin, BlockNs: rapid.Int64Range(1, 4e18).Draw(t, "blocktime"),
			Channel: rapid.IntRange(0, 3).Draw(t, "chan") > 0, Cap: rapid.IntRange(0, 3).Draw(t, "cap") > 0,
		}
		if rapid.IntRange(0, 5).Draw(t, "sendfault") == 0 {
			c.SendErr = rapid.IntRange(1, len(c20SendErrs)-1).Draw(t, "senderr")
		}
		if n, ok := inner.(*intertxtypes.MsgSubmitTx); ok {
			c.OtherOwners = append(c.OtherOwners, n.Owner)
			if rapid.Bool().Draw(t, "sameconn") {
				c.Conn = n.ConnectionId
			}
		}
		if rapid.IntRange(0, 3).Draw(t, "others") == 0 {
			c.OtherOwners = append(c.OtherOwners, genAddr(t, "otherowner"))
		}
		if rapid.IntRange(0, 9).Draw(t, "upper") == 0 {
			c.Owner = upper(c.Owner)
		}
		seq := []c20Case{c}
		// follow-up submissions on the same keeper: other owners on the same connection, the
		// same owner after the channel or capability went away, other connections
		for n := rapid.IntRange(0, 3).Draw(t, "followups"); n > 0; n-- {
			f := c
			switch rapid.IntRange(0, 3).Draw(t, "fmode") {
			case 0:
				f.Owner = genAddr(t, "fowner")
			case 1:
				f.Channel, f.Cap = rapid.Bool().Draw(t, "fchan"), rapid.Bool().Draw(t, "fcap")
			case 2:
				f.Conn = c.Conn + "1"
				f.Owner = genAddr(t, "fowner2")
			default:
				f.BlockNs = c.BlockNs + int64(rapid.IntRange(1, 1_000_000_000).Draw(t, "dt"))
			}
			f.SendErr = 0
			if rapid.IntRange(0, 5).Draw(t, "fsendfault") == 0 {
				f.SendErr = rapid.IntRange(1, len(c20SendErrs)-1).Draw(t, "fsenderr")
			}
			seq = append(seq, f)
		}
		if err := checkC20(seq...); err != nil {
			saveCase("C20", seq)
			t.Fatalf("PROPERTY-FAIL C20: %v", err)
		}
		// two different owners never share a port
		other := genAddr(t, "other")
		if other != c.Owner {
			p1, _ := icatypes.NewControllerPortID(c.Owner)
			p2, _ := icatypes.NewControllerPortID(other)
			if p1 == p2 {
				t.Fatalf("PROPERTY-FAIL C20: owners %s and %s share port %s", c.Owner, other, p1)
			}
		}
		recordPure("C20", c.Channel && c.Cap && len(any.Value) > 0, fmt.Sprintf("%s|%x|%v%v", c.Owner, bin, c.Channel, c.Cap),
			map[string]interface{}{"owner": c.Owner, "conn": c.Conn, "inner_type": c.InnerType, "inner_bytes": len(bin), "block_ns": c.BlockNs, "channel": c.Channel, "capability": c.Cap, "injected_sendtx_error": c.SendErr, "submissions_on_keeper": len(seq)})
		if c.SendErr > 0 && c.Channel && c.Cap {
			eng.G.Label("sendtx-fault-injected")
		}
	})
}

func upper(s string) string {
	b := []byte(s)
	for i, ch := range b {
		if ch >= 'a' && ch <= 'z' {
			b[i] = ch - 32
		}
	}
	return string(b)
}

func TestC20Witness(t *testing.T) {
	for _, f := range witnessFiles("C20", ".json") {
		bz, _ := os.ReadFile(f)
		cs, err := loadC20(bz)
		if err != nil {
			t.Fatalf("harness: %v", err)
		}
		if err := checkC20(cs...); err != nil {
			fmt.Printf("WITNESS-VIOLATION key=pure-case file=%s\n", f)
			t.Fatalf("PROPERTY-FAIL C20 witness: %v", err)
		}
	}
}

func TestC20Replay(t *testing.T) {
	p := os.Getenv("VERIF_REPLAY")
	if p == "" {
		t.Skip()
	}
	bz, err := os.ReadFile(p)
	if err != nil {
		t.Fatalf("harness: %v", err)
	}
	cs, err := loadC20(bz)
	if err != nil {
		t.Fatalf("harness: %v", err)
	}
	if err := checkC20(cs...); err != nil {
		t.Fatalf("PROPERTY-FAIL C20: %v", err)
	}
}

func loadC20(bz []byte) ([]c20Case, error) {
	var cs []c20Case
	if err := json.Unmarshal(bz, &cs); err == nil {
		return cs, nil
	}
	var c c20Case
	if err := json.Unmarshal(bz, &c); err != nil {
		return nil, err
	}
	return []c20Case{c}, nil
}
