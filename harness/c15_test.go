package harness

import (
	"bytes"
	"encoding/base64"
	"encoding/hex"
	"encoding/json"
	"fmt"
	"os"
	"strings"
	"testing"

	"github.com/cosmos/btcutil/base58"
	gogoproto "github.com/cosmos/gogoproto/proto"
	"pgregory.net/rapid"

	"github.com/regen-network/regen-ledger/x/data/v3"

	"verif/eng"
)

// ---- generators ----

var c15Fields = []uint32{1, 1, 1, 2, 255, 256, 257, 65536, 1<<32 - 1, 511, 513}

func genField(t *rapid.T, label string) uint32 {
	if rapid.IntRange(0, 5).Draw(t, label+"rand") == 0 {
		return rapid.Uint32().Draw(t, label)
	}
	return rapid.SampledFrom(c15Fields).Draw(t, label+"pick")
}

// byte alphabets for hashes that are themselves text: a digest pasted as hex, base58, base64 or decimal text
var c15Alphabets = []string{"0123456789abcdef", "0123456789ABCDEF", "0123456789abcdefABCDEF", "0123456789",
	"123456789ABCDEFGHJKLMNPQRSTUVWXYZabcdefghijkmnopqrstuvwxyz", "ABCDEFGHIJKLMNOPQRSTUVWXYZabcdefghijklmnopqrstuvwxyz0123456789+/=", " \t\n", ".:%/", "\x00\xff"}

func genHashBytes(t *rapid.T, label string) []byte {
	n := rapid.SampledFrom([]int{20, 21, 32, 32, 32, 33, 48, 63, 64}).Draw(t, label+"len")
	if rapid.IntRange(0, 4).Draw(t, label+"anylen") == 0 {
		n = rapid.IntRange(20, 64).Draw(t, label+"len2")
	}
	if rapid.IntRange(0, 7).Draw(t, label+"text") == 0 {
		al := []byte(rapid.SampledFrom(c15Alphabets).Draw(t, label+"alphabet"))
		return rapid.SliceOfN(rapid.SampledFrom(al), n, n).Draw(t, label+"txt")
	}
	return rapid.SliceOfN(rapid.Byte(), n, n).Draw(t, label)
}

// textOf returns the hash bytes spelled as text (hex, base64, base58), cut to 64 bytes: a different hash that a
// lenient encoder might take for the same digest.
func textOf(t *rapid.T, h []byte) []byte {
	var out []byte
	switch rapid.IntRange(0, 3).Draw(t, "textenc") {
	case 0:
		out = []byte(hex.EncodeToString(h))
	case 1:
		out = []byte(strings.ToUpper(hex.EncodeToString(h)))
	case 2:
		out = []byte(base64.StdEncoding.EncodeToString(h))
	default:
		out = []byte(base58.Encode(h))
	}
	if len(out) > 64 {
		out = out[:64]
	}
	return out
}

func genExt(t *rapid.T, label string) string {
	if rapid.IntRange(0, 2).Draw(t, label+"common") == 0 {
		return rapid.SampledFrom([]string{"rdf", "pdf", "txt", "csv", "json", "jsonld", "ttl", "nq", "xml", "html", "png", "zip", "gz", "0a", "zzzzzz"}).Draw(t, label+"c")
	}
	return rapid.StringMatching(`[a-z0-9]{2,6}`).Draw(t, label)
}

func genContentHash(t *rapid.T, label string) *data.ContentHash {
	if rapid.Bool().Draw(t, label+"graph") {
		mt := uint32(0)
		if rapid.IntRange(0, 3).Draw(t, label+"mtset") == 0 {
			mt = genField(t, label+"mt")
		}
		return &data.ContentHash{Graph: &data.ContentHash_Graph{Hash: genHashBytes(t, label+"h"), DigestAlgorithm: genField(t, label+"da"), CanonicalizationAlgorithm: genField(t, label+"ca"), MerkleTree: mt}}
	}
	return &data.ContentHash{Raw: &data.ContentHash_Raw{Hash: genHashBytes(t, label+"h"), DigestAlgorithm: genField(t, label+"da"), FileExtension: genExt(t, label+"ext")}}
}

// nearVariant returns a hash differing from h in exactly one aspect.
func nearVariant(t *rapid.T, h *data.ContentHash) *data.ContentHash {
	c := gogoproto.Clone(h).(*data.ContentHash)
	bump := func(x uint32) uint32 {
		k := uint32(rapid.SampledFrom([]int{256, 512, 65536, 1 << 24}).Draw(t, "bump"))
		if x+k > x {
			return x + k
		}
		return x - k
	}
	mode := rapid.IntRange(0, 6).Draw(t, "nearmode")
	if mode == 6 { // the other hash is this hash's digest spelled as text
		if g := c.Graph; g != nil {
			g.Hash = textOf(t, g.Hash)
		} else {
			c.Raw.Hash = textOf(t, c.Raw.Hash)
		}
		return c
	}
	if g := c.Graph; g != nil {
		switch mode {
		case 0:
			g.DigestAlgorithm = bump(g.DigestAlgorithm)
		case 1:
			g.CanonicalizationAlgorithm = bump(g.CanonicalizationAlgorithm)
		case 2:
			g.MerkleTree = bump(g.MerkleTree)
		case 3:
			g.Hash[rapid.IntRange(0, len(g.Hash)-1).Draw(t, "byteidx")] ^= byte(1 << rapid.IntRange(0, 7).Draw(t, "bit"))
		case 4:
			if len(g.Hash) < 64 {
				g.Hash = append(g.Hash, 0)
			} else {
				g.Hash = g.Hash[:63]
			}
		default:
			return &data.ContentHash{Raw: &data.ContentHash_Raw{Hash: g.Hash, DigestAlgorithm: g.DigestAlgorithm, FileExtension: "rdf"}}
		}
		return c
	}
	r := c.Raw
	switch mode {
	case 0, 1:
		r.DigestAlgorithm = bump(r.DigestAlgorithm)
	case 2:
		r.FileExtension = r.FileExtension + "x"
		if len(r.FileExtension) > 6 {
			r.FileExtension = r.FileExtension[1:6]
		}
	case 3:
		r.Hash[rapid.IntRange(0, len(r.Hash)-1).Draw(t, "byteidx")] ^= byte(1 << rapid.IntRange(0, 7).Draw(t, "bit"))
	case 4:
		if len(r.Hash) < 64 {
			r.Hash = append(r.Hash, 0)
		} else {
			r.Hash = r.Hash[:63]
		}
	default:
		r.Hash = append([]byte{byte(r.DigestAlgorithm)}, r.Hash...)
		if len(r.Hash) > 64 {
			r.Hash = r.Hash[:64]
		}
	}
	return c
}

func chEqual(a, b *data.ContentHash) bool {
	x, _ := gogoproto.Marshal(a)
	y, _ := gogoproto.Marshal(b)
	return bytes.Equal(x, y)
}

type c15Case struct {
	Kind string            `json:"kind"` // "hash", "pair", "string"
	H1   *data.ContentHash `json:"h1,omitempty"`
	H2   *data.ContentHash `json:"h2,omitempty"`
	S    string            `json:"s,omitempty"`
}

func fieldWide(h *data.ContentHash) bool {
	if g := h.Graph; g != nil {
		return g.DigestAlgorithm > 255 || g.CanonicalizationAlgorithm > 255 || g.MerkleTree > 255
	}
	if r := h.Raw; r != nil {
		return r.DigestAlgorithm > 255
	}
	return false
}

// checkHash: (a) round trip of a valid content hash, also through the query service.
func checkHash(h *data.ContentHash) (key string, err error) {
	if h.Validate() != nil {
		return "", nil
	}
	sfx := ""
	if fieldWide(h) {
		sfx = "/field>255"
	}
	iri, e := h.ToIRI()
	if e != nil {
		return "valid-hash-has-no-iri" + sfx, fmt.Errorf("valid content hash %v has no IRI: %v", h, e)
	}
	back, e := data.ParseIRI(iri)
	if e != nil {
		return "iri-of-valid-hash-does-not-parse" + sfx, fmt.Errorf("ToIRI(%v) = %s does not parse: %v", h, iri, e)
	}
	if !chEqual(back, h) {
		return "round-trip-changes-hash" + sfx, fmt.Errorf("ParseIRI(ToIRI(h)) = %v differs from h = %v (iri %s)", back, h, iri)
	}
	c := eng.TemplateChain()
	var r1 data.ConvertHashToIRIResponse
	if e := c.Query("/regen.data.v2.Query/ConvertHashToIRI", &data.ConvertHashToIRIRequest{ContentHash: h}, &r1); e != nil || r1.Iri != iri {
		return "query-hash-to-iri-differs", fmt.Errorf("ConvertHashToIRI = %q, %v; ToIRI = %q", r1.Iri, e, iri)
	}
	var r2 data.ConvertIRIToHashResponse
	if e := c.Query("/regen.data.v2.Query/ConvertIRIToHash", &data.ConvertIRIToHashRequest{Iri: iri}, &r2); e != nil || !chEqual(r2.ContentHash, h) {
		return "query-iri-to-hash-differs" + sfx, fmt.Errorf("ConvertIRIToHash(%s) = %v, %v; want %v", iri, r2.ContentHash, e, h)
	}
	return "", nil
}

// checkPair: (b) two different valid hashes never share an IRI.
func checkPair(h1, h2 *data.ContentHash) (string, error) {
	if h1.Validate() != nil || h2.Validate() != nil || chEqual(h1, h2) {
		return "", nil
	}
	i1, e1 := h1.ToIRI()
	i2, e2 := h2.ToIRI()
	if e1 != nil || e2 != nil {
		return "", nil
	}
	if i1 == i2 {
		sfx := ""
		if fieldWide(h1) || fieldWide(h2) {
			sfx = "/field>255"
		}
		return "two-hashes-one-iri" + sfx, fmt.Errorf("different valid content hashes %v and %v share the IRI %s", h1, h2, i1)
	}
	return "", nil
}

// checkString: (c) a string that parses to a VALID content hash is the canonical spelling.
func checkString(s string) (key string, anchorable bool, err error) {
	defer func() {
		if r := recover(); r != nil {
			key, anchorable, err = "parser-panics", false, fmt.Errorf("ParseIRI(%q) panics: %v", s, r)
		}
	}()
	// what the chain's own conversion query accepts must be canonical too (and agree with the parser)
	var qr data.ConvertIRIToHashResponse
	if qe := eng.TemplateChain().Query("/regen.data.v2.Query/ConvertIRIToHash", &data.ConvertIRIToHashRequest{Iri: s}, &qr); qe == nil && qr.ContentHash != nil && qr.ContentHash.Validate() == nil {
		if iri, e := qr.ContentHash.ToIRI(); e != nil || iri != s {
			return "query-accepts-second-spelling", true, fmt.Errorf("ConvertIRIToHash(%q) answers %v whose IRI is %q: the chain accepts a non-canonical spelling", s, qr.ContentHash, iri)
		}
	}
	h, e := data.ParseIRI(s)
	if e != nil || h == nil {
		return "", false, nil
	}
	if h.Validate() != nil {
		eng.G.Count("C15/parses-but-not-a-valid-hash (observation)", 1)
		return "", false, nil
	}
	iri, e := h.ToIRI()
	if e != nil {
		return "parsed-valid-hash-has-no-iri", true, fmt.Errorf("%q parses to valid %v which has no IRI: %v", s, h, e)
	}
	if iri != s {
		return "second-spelling-accepted", true, fmt.Errorf("%q parses to %v whose IRI is %q: two spellings of one content hash", s, h, iri)
	}
	return "", true, nil
}

func genIRIString(t *rapid.T) string {
	h := genContentHash(t, "base")
	valid := "regen:13toVgf5UjYBz6J29ZJhTVyBbhkQkSh7ZdKWzc4XEZ4cpSHvqqF4C8.rdf"
	if iri, err := h.ToIRI(); err == nil {
		valid = iri
	}
	switch rapid.IntRange(0, 10).Draw(t, "strmode") {
	case 10: // percent-encode some characters, as a REST client does with a path segment
		b := []byte(valid)
		var sb strings.Builder
		forced := rapid.IntRange(0, len(b)-1).Draw(t, "pcti")
		for i, ch := range b {
			if i == forced || (!('a' <= ch && ch <= 'z' || 'A' <= ch && ch <= 'Z' || '0' <= ch && ch <= '9') && rapid.Bool().Draw(t, "pct")) {
				if rapid.Bool().Draw(t, "pctcase") {
					fmt.Fprintf(&sb, "%%%02X", ch)
				} else {
					fmt.Fprintf(&sb, "%%%02x", ch)
				}
			} else {
				sb.WriteByte(ch)
			}
		}
		return sb.String()
	case 0:
		return valid
	case 1: // flip one character
		b := []byte(valid)
		i := rapid.IntRange(0, len(b)-1).Draw(t, "i")
		if rapid.IntRange(0, 5).Draw(t, "nonascii") == 0 { // non-ASCII and invalid UTF-8 inside the IRI
			return string(b[:i]) + rapid.SampledFrom([]string{"é", "€", "٣", "\x8b", "\xff\xfe", "Ｒ", "\u0000"}).Draw(t, "u") + string(b[i:])
		}
		b[i] = rapid.SampledFrom([]byte("123456789ABCDEFGHJKLMNPQRSTUVWXYZabcdefghijkmnopqrstuvwxyz0OIl.:")).Draw(t, "c")
		return string(b)
	case 2: // arbitrary payload with a correct checksum and arbitrary version
		payload := rapid.SliceOfN(rapid.Byte(), 0, 70).Draw(t, "payload")
		if len(payload) > 0 {
			payload[0] = rapid.SampledFrom([]byte{0, 1, 1, 2}).Draw(t, "typ")
		}
		ver := rapid.SampledFrom([]byte{0, 0, 0, 1, 255}).Draw(t, "ver")
		return "regen:" + base58.CheckEncode(payload, ver) + "." + rapid.SampledFrom([]string{"rdf", "pdf", "RDF", "r", "toolong7", "", "a.b"}).Draw(t, "ext")
	case 3: // extension variants
		i := strings.LastIndexByte(valid, '.')
		return valid[:i+1] + rapid.SampledFrom([]string{"RDF", "Rdf", "rdf ", "rdf.", "", "pdf", "x", "abcdefg", "rdf\x00"}).Draw(t, "ext")
	case 4: // leading '1' (a zero byte in base58) inserted / prefix changes
		return rapid.SampledFrom([]string{"regen:1", "Regen:", "regen:", "regen::", " regen:", "regen:11"}).Draw(t, "pfx") + valid[len("regen:"):]
	case 5: // valid payload, checksum kept, re-encoded with non-canonical base58 (leading ones)
		i := strings.LastIndexByte(valid, '.')
		dec := base58.Decode(valid[len("regen:"):i])
		return "regen:" + base58.Encode(append([]byte{0}, dec...)) + valid[i:]
	case 6:
		return rapid.String().Draw(t, "any")
	case 7: // valid raw hash payload with extension from the wider alphabet
		payload := append([]byte{0, byte(rapid.IntRange(0, 255).Draw(t, "da"))}, rapid.SliceOfN(rapid.Byte(), 18, 66).Draw(t, "hash")...)
		return "regen:" + base58.CheckEncode(payload, 0) + "." + rapid.StringMatching(`[a-zA-Z0-9]{1,7}`).Draw(t, "ext")
	case 8: // valid graph payload
		payload := append([]byte{1, byte(rapid.IntRange(0, 255).Draw(t, "ca")), byte(rapid.IntRange(0, 255).Draw(t, "mt")), byte(rapid.IntRange(0, 255).Draw(t, "da"))}, rapid.SliceOfN(rapid.Byte(), 18, 66).Draw(t, "hash")...)
		return "regen:" + base58.CheckEncode(payload, 0) + ".rdf"
	}
	return valid + rapid.SampledFrom([]string{"", " ", "\n", ".rdf", "x"}).Draw(t, "tail")
}

func c15Report(t *rapid.T, key string, err error, c c15Case) {
	if err == nil {
		return
	}
	if eng.IsKnownOpen("C15", key) {
		eng.G.ExcludedKnown(key)
		return
	}
	bz, _ := json.MarshalIndent(c, "", " ")
	dir := os.Getenv("VERIF_OUT")
	if dir == "" {
		dir = os.TempDir()
	}
	_ = os.MkdirAll(dir, 0o755)
	p := fmt.Sprintf("%s/C15-%s.case.json", dir, strings.ReplaceAll(strings.ReplaceAll(key, "/", "_"), ">", "gt"))
	_ = os.WriteFile(p, bz, 0o644)
	eng.G.AddViolation(eng.Violation{Property: "C15", Key: key, Msg: err.Error(), Replay: p})
	eng.G.Flush()
	t.Fatalf("VIOLATION-DETAIL property=C15 key=%s: %v", key, err)
}

func TestC15(t *testing.T) {
	rapid.Check(t, func(t *rapid.T) {
		switch rapid.IntRange(0, 2).Draw(t, "casekind") {
		case 0:
			h := genContentHash(t, "h")
			key, err := checkHash(h)
			c15Report(t, key, err, c15Case{Kind: "hash", H1: h})
			recordPure("C15", h.Validate() == nil && fieldWide(h), "hash|"+h.String(), c15Case{Kind: "hash", H1: h})
		case 1:
			h1 := genContentHash(t, "h")
			h2 := nearVariant(t, h1)
			key, err := checkPair(h1, h2)
			c15Report(t, key, err, c15Case{Kind: "pair", H1: h1, H2: h2})
			key, err = checkHash(h2)
			c15Report(t, key, err, c15Case{Kind: "hash", H1: h2})
			recordPure("C15", h1.Validate() == nil && h2.Validate() == nil && !chEqual(h1, h2), "pair|"+h1.String()+"|"+h2.String(), c15Case{Kind: "pair", H1: h1, H2: h2})
		default:
			s := genIRIString(t)
			key, anch, err := checkString(s)
			c15Report(t, key, err, c15Case{Kind: "string", S: s})
			recordPure("C15", anch, "string|"+s, c15Case{Kind: "string", S: s})
		}
	})
}

func runC15Case(c c15Case) (string, error) {
	switch c.Kind {
	case "hash":
		return checkHash(c.H1)
	case "pair":
		return checkPair(c.H1, c.H2)
	default:
		k, _, err := checkString(c.S)
		return k, err
	}
}

func TestC15Witness(t *testing.T) {
	for _, f := range witnessFiles("C15", ".json") {
		bz, _ := os.ReadFile(f)
		var c c15Case
		if err := json.Unmarshal(bz, &c); err != nil {
			t.Fatalf("harness: %s: %v", f, err)
		}
		key, err := runC15Case(c)
		if err == nil {
			continue
		}
		if eng.IsKnownOpen("C15", key) {
			for _, kf := range eng.OpenFindings("C15") {
				if eng.IsKnownOpen("C15", key) && strings.HasPrefix(key, strings.TrimSuffix(kf.Key, "*")) {
					fmt.Printf("KNOWN-FINDING: property=C15 key=%s %s (witness %s)\n", kf.Key, kf.What, f)
				}
			}
			continue
		}
		fmt.Printf("WITNESS-VIOLATION key=%s file=%s\n", key, f)
		t.Fatalf("PROPERTY-FAIL C15 witness %s: %v", f, err)
	}
}

func TestC15Replay(t *testing.T) {
	p := os.Getenv("VERIF_REPLAY")
	if p == "" {
		t.Skip()
	}
	bz, err := os.ReadFile(p)
	if err != nil {
		t.Fatalf("harness: %v", err)
	}
	var c c15Case
	if err := json.Unmarshal(bz, &c); err != nil {
		// a native fuzz corpus file: second line is string("...")
		c = c15Case{Kind: "string", S: fuzzCorpusString(bz)}
	}
	if _, err := runC15Case(c); err != nil {
		t.Fatalf("PROPERTY-FAIL C15: %v", err)
	}
}

func fuzzCorpusString(bz []byte) string {
	for _, l := range strings.Split(string(bz), "\n") {
		if strings.HasPrefix(l, "string(") {
			var s string
			if _, err := fmt.Sscanf(l, "string(%q)", &s); err == nil {
				return s
			}
		}
	}
	return string(bz)
}

func FuzzC15ParseIRI(f *testing.F) {
	for _, s := range []string{
		"regen:13toVgf5UjYBz6J29ZJhTVyBbhkQkSh7ZdKWzc4XEZ4cpSHvqqF4C8.rdf",
		"regen:113gdjFKcVCt13Za6vN7TtbgMM6LMSjRnu89BMCxeuHdkJ1hWUmy.rdf",
		"regen:13toVgf5UjYBz6J29ZJhTVyBbhkQkSh7ZdKWzc4XEZ4cpSHvqqF4C8.pdf",
		"regen:.rdf", "regen:1.rdf", "cosmos:abc.rdf", "", "regen:€.rdf", "regen:\x8b.",
	} {
		f.Add(s)
	}
	f.Fuzz(func(t *testing.T, s string) {
		if key, _, err := checkString(s); err != nil && !eng.IsKnownOpen("C15", key) {
			t.Fatalf("PROPERTY-FAIL C15 %s: %v", key, err)
		}
	})
}
