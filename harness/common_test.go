package harness

import (
	"fmt"
	"os"
	"path/filepath"
	"sort"
	"testing"

	"pgregory.net/rapid"

	"verif/eng"
)

// stateful runs a stateful property: histories from the profile checked by the monitors.
func stateful(t *testing.T, prof *eng.Profile, mk func() []eng.Monitor) {
	rapid.Check(t, func(t *rapid.T) {
		eng.RunHistory(t, prof, mk()...)
	})
}

func witnessFiles(prop, ext string) []string {
	fs, _ := filepath.Glob(filepath.Join(eng.Root(), "witness", prop, "*"+ext))
	sort.Strings(fs)
	return fs
}

// witnessStateful replays every saved trace of the property. A trace whose key
// is an open known finding prints a KNOWN-FINDING line when it still
// reproduces; any other violation fails the test.
func witnessStateful(t *testing.T, prop string, prof *eng.Profile, mk func() []eng.Monitor) {
	for _, f := range witnessFiles(prop, ".trace.json") {
		tr, err := eng.LoadTrace(f)
		if err != nil {
			t.Fatalf("harness: bad witness %s: %v", f, err)
		}
		if len(tr.Genesis.Eco) > 0 {
			tc := eng.TemplateChain()
			if err := tc.Eco.ValidateGenesis(tc.Cdc, nil, tr.Genesis.Eco); err != nil {
				// the configuration of this witness is (no longer) accepted by genesis
				// validation: nothing to replay
				fmt.Printf("witness %s: genesis rejected by ValidateGenesis (%v), skipped\n", filepath.Base(f), err)
				continue
			}
		}
		w := eng.Replay(tr, prof, func(format string, a ...interface{}) {
			fmt.Printf("WITNESS-VIOLATION key=%s file=%s\n", tr.Key, f)
			t.Fatalf(format, a...)
		}, mk()...)
		w.Finish()
		for _, kf := range eng.OpenFindings(prop) {
			if w.Flags["known:"+kf.Key] {
				fmt.Printf("KNOWN-FINDING: property=%s key=%s %s (witness %s)\n", prop, kf.Key, kf.What, filepath.Base(f))
				eng.G.Known(kf.Key)
			}
		}
	}
}

// replayStateful replays $VERIF_REPLAY (a JSON trace) with the monitors.
func replayStateful(t *testing.T, prop string, prof *eng.Profile, mk func() []eng.Monitor) {
	p := os.Getenv("VERIF_REPLAY")
	if p == "" {
		t.Skip("VERIF_REPLAY not set")
	}
	tr, err := eng.LoadTrace(p)
	if err != nil {
		t.Fatalf("harness: bad trace %s: %v", p, err)
	}
	w := eng.Replay(tr, prof, func(format string, a ...interface{}) { t.Fatalf(format, a...) }, mk()...)
	w.Finish()
}
