package harness

import (
	"testing"

	"verif/eng"
	"verif/mon"
)

var profC01 = eng.ProfileFull("C01", nil)

func monsC01() []eng.Monitor { return []eng.Monitor{&mon.C01{}} }

func TestC01(t *testing.T)        { stateful(t, profC01, monsC01) }
func TestC01Witness(t *testing.T) { witnessStateful(t, "C01", profC01, monsC01) }
func TestC01Replay(t *testing.T)  { replayStateful(t, "C01", profC01, monsC01) }
